"""Bounded grammar of the notation: token strings (writing trees with descriptor leaves, ring templates with
inserted descriptor branches), descriptor texts in every syntax, stochastic objects / molecules / systems built
from structured descriptions and printed by an independent printer in several format variants."""
import itertools
import re

ATOM_ALPHABET = ["C", "N", "O", "Cl", "[Si]", "S", "Br", "[NH+]", "P", "F"]
BONDS = ["", "=", "#"]


# ------------------------------------------------------------------ descriptor texts
def desc_texts(level):
    """(text) variety of descriptor syntaxes; level 0 = plain symbols, 1 = + ids/weights, 2 = every float syntax"""
    out = ["[$]", "[<]", "[>]"]
    if level >= 1:
        out += ["[$1]", "[<2]", "[>2]", "[$|2|]", "[<|0.5|]", "[>|0|]", "[$12|3.5|]", "[$|1 0 2|]", "[<1|0 0 4.5|]", "[$|1 1 1|]", "[>|1|]", "[<|1 1|]", "[$|0 0|]", "[$|1.e3|]", "[<|2.E-1|]", "[>|1.e1 2 +3|]", "[$3|+.5e+1|]", "[<|1E2|]"]
    if level >= 2:
        out += ["[$|2.|]", "[<|.5|]", "[>|5e-1|]", "[$|2e0|]", "[$ 3]", "[<| 21. 234. 2134. |]", "[$007]", "[>|1.0 2 .5 0|]", "[$|0.0|]", "[<99|1e-3|]"]
    return out


# ------------------------------------------------------------------ writing trees
# node = (atom, [child, ...]); child = ("D", bond, desctext) | ("A", bond, node)


def _shapes(n):
    """all ordered rooted trees with n atom nodes, as nested tuples of children"""
    if n == 1:
        return [()]
    out = []
    # distribute n-1 nodes among an ordered forest
    for first in range(1, n):
        for sub in _shapes(first):
            for rest in _forest(n - 1 - first):
                out.append((sub,) + rest)
    return out


def _forest(n):
    if n == 0:
        return [()]
    out = []
    for first in range(1, n + 1):
        for sub in _shapes(first):
            for rest in _forest(n - first):
                out.append((sub,) + rest)
    return out


def _count_nodes(shape):
    return 1 + sum(_count_nodes(c) for c in shape)


def _positions(shape, path=()):
    """every node path of the tree, in writing (pre-)order"""
    out = [path]
    for i, c in enumerate(shape):
        out += _positions(c, path + (i,))
    return out


def write_tree(shape, atoms, dslots, bond_of, paren_last, lead=None):
    """shape: nested children; atoms: dict path->symbol; dslots: dict path -> list of (slot_index, bond, text) where
    slot_index in 0..len(children) says before which atom-child the descriptor leaf is written; lead: (bond, text) written
    in front of the root atom and bonded to it."""

    def rec(path, sh):
        s = atoms[path]
        kids = []
        ds = sorted(dslots.get(path, []), key=lambda x: x[0])
        for i, c in enumerate(sh):
            for (si, b, t) in ds:
                if si == i:
                    kids.append(b + t)
            kids.append(bond_of.get(path + (i,), "") + rec(path + (i,), c))
        for (si, b, t) in ds:
            if si >= len(sh):
                kids.append(b + t)
        for j, k in enumerate(kids):
            last = j == len(kids) - 1
            if last and not paren_last.get(path, False):
                s += k
            else:
                s += "(" + k + ")"
        return s

    body = rec((), shape)
    if lead is not None:
        b, t = lead
        return t + b + body
    return body


def token_strings(max_atoms, max_desc, level, seed=0, bond_variants=False, cap=None):
    """enumerate token strings: all tree shapes x all placements of <= max_desc descriptor leaves (incl. leading
    descriptor, descriptor slots between children, parenthesised-last variants); atom symbols and descriptor texts are
    assigned by deterministic rotation so that every alphabet entry occurs without a full product."""
    dts = desc_texts(level)
    n_out = 0
    rot = seed
    for n in range(1, max_atoms + 1):
        for shape in _shapes(n):
            paths = _positions(shape)
            # slots: (path, slot index) for slot index 0..nchildren
            slots = []

            def kids(path):
                sh = shape
                for i in path:
                    sh = sh[i]
                return sh

            for p in paths:
                for si in range(len(kids(p)) + 1):
                    slots.append((p, si))
            slot_choices = [("lead", None)] + [("slot", s) for s in slots]
            for nd in range(1, max_desc + 1):
                for combo in itertools.combinations_with_replacement(range(len(slot_choices)), nd):
                    if combo.count(0) > 1:
                        continue
                    rot += 1
                    atoms = {p: ATOM_ALPHABET[(rot + 3 * k) % len(ATOM_ALPHABET)] if (k == (rot % max(1, len(paths)))) else "C" for k, p in enumerate(paths)}
                    dslots = {}
                    lead = None
                    for j, ci in enumerate(combo):
                        kind, s = slot_choices[ci]
                        text = dts[(rot + 5 * j) % len(dts)]
                        bond = ""
                        if bond_variants:
                            bond = BONDS[(rot // 2 + j) % 3] if (rot + j) % 4 == 0 else ""
                        if kind == "lead":
                            lead = (bond, text)
                        else:
                            dslots.setdefault(s[0], []).append((s[1], bond, text))
                    bond_of = {}
                    if bond_variants and len(paths) > 1 and rot % 5 == 0:
                        bond_of[paths[1 + rot % (len(paths) - 1)]] = BONDS[1 + (rot // 5) % 2]
                    for pl in ([{}] if n_out % 3 else [{}, {paths[rot % len(paths)]: True}]):
                        yield write_tree(shape, atoms, dslots, bond_of, pl, lead)
                        n_out += 1
                        if cap and n_out >= cap:
                            return


_ATOM_TOK = re.compile(r"(Cl|Br|\[[^\]]*\]|[BCNOPSFIcnops])((?:[=#]?(?:\d|%\d\d))*)")  # atom + its ring-closure labels (with their bond symbols)

RING_TEMPLATES = ["C1CCCCC1", "c1ccccc1", "C1CC1C", "c1ccc2ccccc2c1", "C1CCC2CCCCC2C1", "N1CCOCC1", "c1ccncc1", "CC(=O)OC", "C(=O)c1ccc(cc1)C(=O)", "CC(C)(C(=O)OC)", "C#CC", "OCC(O)CSc1c(F)cccc1F",
                  # ring closures that carry their own bond symbol / two-digit labels: the symbol belongs to the ring bond
                  "C=1CCCCC1", "C1CCCCC=1", "C1CCCC(C=1)", "C=1C=CC=CC1", "C%11CCCCC%11", "C%11CCCCC=%11", "[N+]=1C=CC=CC1", "C1=CC=CC=C1", "C#1CCCCCCC1"]


def ring_token_strings(level, max_ins=2, seed=0):
    dts = desc_texts(level)
    k = seed
    for tmpl in RING_TEMPLATES:
        ms = list(_ATOM_TOK.finditer(tmpl))
        ends = [m.end() for m in ms]
        # also: leading descriptor, trailing descriptor
        places = [("lead", 0)] + [("after", e) for e in ends] + [("trail", len(tmpl))]
        for r in range(1, max_ins + 1):
            for combo in itertools.combinations(range(len(places)), r):
                k += 1
                s = tmpl
                ok = True
                for ci in sorted(combo, reverse=True):
                    kind, pos = places[ci]
                    t = dts[(k + ci) % len(dts)]
                    if kind == "lead":
                        s = t + s
                    elif kind == "trail":
                        if ("after", len(tmpl)) in [places[c] for c in combo]:
                            ok = False
                        s = s[:pos] + t + s[pos:]
                    else:
                        s = s[:pos] + "(" + t + ")" + s[pos:]
                if ok:
                    yield s
                    if r == 1 and kind != "lead":
                        # the same single insertion with a double bond towards the descriptor
                        kind, pos = places[combo[0]]
                        t = dts[(k + combo[0]) % len(dts)]
                        yield tmpl[:pos] + ("=" + t if kind == "trail" else "(=" + t + ")") + tmpl[pos:]


# ------------------------------------------------------------------ format variants for higher levels
FORMATS = [
    {"sep": ", ", "semi": "; ", "pre": "", "post": ""},
    {"sep": ",", "semi": ";", "pre": "", "post": ""},
    {"sep": " , ", "semi": " ; ", "pre": " ", "post": " "},
    {"sep": ",  ", "semi": ";  ", "pre": "", "post": " "},
]


def print_sto_fmt(el, fmt):
    s = "{" + el["left"] + fmt["pre"] + fmt["sep"].join(el["rep"])
    if el["end"]:
        s += fmt["semi"] + fmt["sep"].join(el["end"])
    s += fmt["post"] + el["right"] + "}"
    if el.get("dist"):
        s += "|" + el["dist"] + "|"
    return s


def print_spec_fmt(spec, fmt):
    s = ""
    for el in spec["elements"]:
        s += el["text"] if el["k"] == "tok" else print_sto_fmt(el, fmt)
    if spec.get("mixture") is not None:
        s += ".|" + spec["mixture"] + "|"
    return s


DISTS = [
    ("gauss", "gauss(500, 10)", (500.0, 10.0)),
    ("gauss", "gauss(1.5e3,50.)", (1500.0, 50.0)),
    ("uniform", "uniform(12, 72)", (12, 72)),
    ("schulz_zimm", "schulz_zimm(5000, 4500)", (5000.0, 4500.0)),
    ("log_normal", "log_normal(50, 1.1)", (50.0, 1.1)),
    ("poisson", "poisson(65)", (65.0,)),
    ("flory_schulz", "flory_schulz(0.11)", (0.11,)),
    ("flory_schulz", "flory_schulz(9e-4)", (0.0009,)),
    ("gauss", "gauss(30.0, 0)", (30.0, 0.0)),
]


# ------------------------------------------------------------------ numbers
# Every numeric slot of the notation x a menu of number texts spanning magnitudes 1e-7 .. 3e7 and 1 .. 10 significant
# digits (a printer that rounds, truncates or switches to a short exponent form loses some of them).
NUMBER_TEXTS = [
    "3", "12", "72", "0.11", "9e-4", "2.5e-3", "1e-7", "0.123456789", "7.0000001", "100.12345", "1500.5", "65536", "99999.9",
    "123456.789", "999999.5", "1000000.5", "1234567", "3120450", "3120485", "31204857", "1e6", "1.5e7", "0.30000000000000004",
    "2.675", "1234.5678901",
    # plain decimals / integers that a float prints back in exponent notation with a signed exponent (2e-05, 2e+16)
    "0.00002", "20000000000000000",
]
DIST_SLOTS = [
    ("gauss", "gauss({0}, 10)"), ("gauss", "gauss(3120470.5, {0})"), ("uniform", "uniform({0}, 41204858)"), ("uniform", "uniform(1, {0})"),
    ("schulz_zimm", "schulz_zimm({0}, 2.5)"), ("schulz_zimm", "schulz_zimm(41204858, {0})"), ("log_normal", "log_normal({0}, 1.1)"),
    ("log_normal", "log_normal(50, {0})"), ("poisson", "poisson({0})"), ("flory_schulz", "flory_schulz({0})"),
]


def number_strings():
    """level -> [(string, slot, number text)]: each numeric slot filled with each number text"""
    out = {"desc": [], "sto": [], "sys": []}
    for n in NUMBER_TEXTS:
        out["desc"].append((f"[$|{n}|]", "weight", n))
        out["desc"].append((f"[<2|{n} 1 0.5|]", "list-entry", n))
        for fam, tpl in DIST_SLOTS:
            out["sto"].append(("{[][$]CC[$]; [$][H][]}|" + tpl.format(n) + "|", "dist:" + tpl, n))
        out["sto"].append(("{[][$|" + n + "|]CC[$]; [$][H][]}|gauss(100, 10)|", "weight-in-object", n))
        out["sys"].append((f"CCO.|{n}|", "absolute-mass", n))
        if float(n) <= 100:
            out["sys"].append((f"CCO.|{n}%|N.|31204857|", "percent", n))
        out["sys"].append((f"CCO.|10%|CC.|{n}|", "absolute-mass-2", n))
    return out
