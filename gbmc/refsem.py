"""Reference semantics, written from the README / BigSMILES rules and the property statements -
not from the library source.

* token_ref(text): what a token string denotes.  Each bond descriptor is replaced by a labelled dummy
  atom written at the same position and the string is handed to RDKit's SMILES parser: the atom the
  dummy is bonded to and the order of that bond ARE the descriptor's attachment atom and bond order
  ("exactly as if the descriptor were an atom written at that position of the SMILES").
* descriptor text -> symbol, id, weight / transition list.
* structured molecule descriptions (plain dicts), an independent printer, the insertion rule for
  implicit descriptors on prefix / connector / suffix tokens.
* GenModel: the generation process as a finite Markov chain over canonical partial molecules,
  explored exhaustively (BFS with state merging), giving the exact outcome distribution.
"""
import re
from functools import lru_cache

from rdkit import Chem
from rdkit.Chem import Descriptors

DESC_RE = re.compile(r"\[\s*([<>$])\s*(\d*)\s*(?:\|([^|\]]*)\|)?\s*\]")
BOND_ORDER = {Chem.BondType.SINGLE: 1.0, Chem.BondType.DOUBLE: 2.0, Chem.BondType.TRIPLE: 3.0, Chem.BondType.AROMATIC: 1.5}


class RefError(Exception):
    pass


class DescRef:
    __slots__ = ("symbol", "id", "weight", "transitions", "atom", "order", "text", "span", "written_atom")

    def __init__(self, symbol, id_, weight, transitions, atom=None, order=1.0, text="", span=None):
        self.symbol = symbol
        self.id = id_
        self.weight = weight
        self.transitions = transitions
        self.atom = atom
        self.order = order
        self.text = text
        self.span = span
        self.written_atom = atom

    def plain(self):
        return f"[{self.symbol}{'' if self.id is None else self.id}]"

    def key(self):
        return (self.symbol, self.id, self.order)

    def __repr__(self):
        return f"D({self.text}@{self.atom} o={self.order})"


def parse_desc(text):
    """Reference reading of a descriptor text like [$1|2.5|] or [<|1 2 3|] or []."""
    t = text.strip()
    if t == "[]":
        return DescRef("", None, 1.0, None, text=t)
    m = DESC_RE.fullmatch(t)
    if not m:
        raise RefError(f"not a descriptor: {text!r}")
    sym, ids, w = m.group(1), m.group(2), m.group(3)
    weight, trans = 1.0, None
    if w is not None:
        vals = [float(x) for x in w.split()]
        if len(vals) == 1:
            weight = vals[0]
        elif len(vals) > 1:
            trans = vals
            weight = sum(vals)
        else:
            raise RefError("empty weight")
    return DescRef(sym, int(ids) if ids != "" else None, weight, trans, text=t)


def compat(a, b):
    if a.symbol == "" or b.symbol == "":
        return False
    if a.id != b.id or a.order != b.order:
        return False
    return (a.symbol, b.symbol) in (("$", "$"), ("<", ">"), (">", "<"))


class TokenRef:
    def __init__(self, text):
        self.text = text
        descs = []
        out = []
        pos = 0
        for k, m in enumerate(DESC_RE.finditer(text)):
            d = parse_desc(m.group(0))
            d.span = m.span()
            descs.append(d)
            out.append(text[pos : m.start()])
            out.append(f"[{k + 1}*]")
            pos = m.end()
        out.append(text[pos:])
        dummy_smiles = "".join(out)
        self.dummy_smiles = dummy_smiles
        params = Chem.SmilesParserParams()
        params.removeHs = False
        params.sanitize = True
        mol = Chem.MolFromSmiles(dummy_smiles, params)
        if mol is None:
            raise RefError(f"RDKit rejects {dummy_smiles!r}")
        # explicit hydrogens written on a heavy atom are part of that atom (RDKit merges them; the fragment the
        # library hands to RDKit behaves the same way); [H] alone, isotopic H and H on a descriptor stay atoms
        w = 0
        for a in mol.GetAtoms():
            if a.GetAtomicNum() != 0:
                a.SetIntProp("widx", w)
                a.SetIntProp("bracket", 1 if a.GetNoImplicit() else 0)
                w += 1
        self.n_written_atoms = w
        try:
            mol = Chem.RemoveHs(mol)
        except Exception as e:  # noqa
            raise RefError(f"RDKit cannot merge hydrogens of {dummy_smiles!r}: {e}")
        real = [a.GetIdx() for a in mol.GetAtoms() if a.GetAtomicNum() != 0]
        idx_of = {g: i for i, g in enumerate(real)}
        dummies = {}
        for a in mol.GetAtoms():
            if a.GetAtomicNum() == 0:
                dummies[a.GetIsotope() - 1] = a
        if len(dummies) != len(descs):
            raise RefError("dummy count mismatch")
        for k, d in enumerate(descs):
            a = dummies[k]
            nb = a.GetNeighbors()
            if len(nb) != 1 or nb[0].GetAtomicNum() == 0:
                raise RefError(f"descriptor {k} of {text!r} does not bond to exactly one atom")
            b = mol.GetBondBetweenAtoms(a.GetIdx(), nb[0].GetIdx())
            d.atom = idx_of[nb[0].GetIdx()]
            d.written_atom = nb[0].GetIntProp("widx")
            d.order = BOND_ORDER.get(b.GetBondType(), float(b.GetBondTypeAsDouble()))
        self.descs = descs
        self.mol = mol  # with dummies
        self.real = real
        self.idx_of = idx_of
        self.dummy_idx = [dummies[k].GetIdx() for k in range(len(descs))]
        self.natoms = len(real)
        # atoms written in brackets: their hydrogen count is whatever the bracket says; no property speaks about it
        self.bracket = [bool(mol.GetAtomWithIdx(g).HasProp("bracket") and mol.GetAtomWithIdx(g).GetIntProp("bracket")) for g in real]
        self.atoms = [
            (mol.GetAtomWithIdx(g).GetAtomicNum(), mol.GetAtomWithIdx(g).GetFormalCharge(), mol.GetAtomWithIdx(g).GetIsotope(), mol.GetAtomWithIdx(g).GetIsAromatic())
            for g in real
        ]
        bonds = []
        for b in mol.GetBonds():
            i, j = b.GetBeginAtomIdx(), b.GetEndAtomIdx()
            if i in idx_of and j in idx_of:
                bonds.append((min(idx_of[i], idx_of[j]), max(idx_of[i], idx_of[j]), BOND_ORDER.get(b.GetBondType(), b.GetBondTypeAsDouble())))
        self.bonds = sorted(bonds)
        self.mass = sum(_heavy_mass(mol.GetAtomWithIdx(g)) for g in real)
        # tokens whose aromaticity / bond orders change when the descriptors are cut off are chemically degenerate
        # (e.g. a descriptor on an already fully substituted aromatic atom): outside every quantifier
        self.degenerate = False
        try:
            erased = re.sub(r"^\[\d+\*\][-=#:]?", "", dummy_smiles)
            erased = re.sub(r"[-=#:]?\[\d+\*\]", "", erased)
            while "()" in erased:
                erased = erased.replace("()", "")
            m2 = Chem.RemoveHs(Chem.MolFromSmiles(erased, params))
            atoms2 = [(a.GetAtomicNum(), a.GetFormalCharge(), a.GetIsotope(), a.GetIsAromatic()) for a in m2.GetAtoms()]
            bonds2 = sorted((min(b.GetBeginAtomIdx(), b.GetEndAtomIdx()), max(b.GetBeginAtomIdx(), b.GetEndAtomIdx()), BOND_ORDER.get(b.GetBondType(), b.GetBondTypeAsDouble())) for b in m2.GetBonds())
            if atoms2 != self.atoms or bonds2 != self.bonds:
                self.degenerate = True
        except Exception:  # noqa
            self.degenerate = True
        # descriptors that cannot be told apart (same atom, symbol, id, order, weight, transitions) share a class
        sig = [(d.atom, d.symbol, d.id, d.order, round(d.weight, 9), None if d.transitions is None else tuple(d.transitions)) for d in descs]
        self.desc_class = [sig.index(x) for x in sig]

    def plain_text(self):
        """token text with every |...| inside descriptors erased"""
        return DESC_RE.sub(lambda m: parse_desc(m.group(0)).plain(), self.text)


_PT = Chem.GetPeriodicTable()


def _heavy_mass(atom):
    if atom.GetAtomicNum() <= 1:
        return 0.0
    iso = atom.GetIsotope()
    if iso:
        return _PT.GetMassForIsotope(atom.GetAtomicNum(), iso)
    return _PT.GetAtomicWeight(atom.GetAtomicNum())


@lru_cache(maxsize=100000)
def token_ref(text):
    return TokenRef(text)


def token_ref_or_none(text):
    try:
        return token_ref(text)
    except RefError:
        return None


# ----------------------------------------------------------------------------- molecule specs
# spec = {"elements": [el, ...], "mixture": None | "5000" | "25%"}
# el = {"k": "tok", "text": str} | {"k": "sto", "left": str, "rep": [str], "end": [str], "right": str, "dist": None|str}


def tok(text):
    return {"k": "tok", "text": text}


def sto(left, rep, end, right, dist=None):
    return {"k": "sto", "left": left, "rep": list(rep), "end": list(end), "right": right, "dist": dist}


def print_sto(el, sep=(", ", "; "), ext=True):
    s = "{" + el["left"] + sep[0].join(el["rep"])
    if el["end"]:
        s += sep[1] + sep[0].join(el["end"])
    s += el["right"] + "}"
    if el.get("dist") and ext:
        s += "|" + el["dist"] + "|"
    return s


def print_spec(spec, sep=(", ", "; ")):
    s = ""
    for el in spec["elements"]:
        s += el["text"] if el["k"] == "tok" else print_sto(el, sep)
    if spec.get("mixture") is not None:
        s += ".|" + spec["mixture"] + "|"
    return s


def same_symbol_text(d, weight0=False, pre=""):
    """descriptor the library documents to insert on a token so that it can bond to the descriptor left open
    by a terminal `d`: same symbol and id as the terminal (its conjugate is what the object leaves open)."""
    t = f"[{d.symbol}{'' if d.id is None else d.id}"
    if weight0:
        t += "|0|"
    return pre + t + "]"


def order_prefix(d):
    return {1.0: "", 2.0: "=", 3.0: "#", 1.5: ":"}[d.order]


def terminal_ref(text):
    """terminal descriptor text, possibly with bond-order characters in front: '=[$]'"""
    t = text.strip()
    i = t.find("[")
    d = parse_desc(t[i:])
    pre = t[:i]
    if d.symbol != "":
        d.order = 2.0 if "=" in pre else 3.0 if "#" in pre else 1.5 if ":" in pre else 1.0
    return d


def normalize(spec):
    """Apply the implicit-descriptor rule: returns a new spec in which prefix / connector / suffix tokens
    carry explicit descriptors (hand-over descriptor towards the next object has weight 0)."""
    els = [dict(e) for e in spec["elements"]]
    n = len(els)
    out = []
    for i, e in enumerate(els):
        if e["k"] != "tok":
            out.append(e)
            continue
        text = e["text"]
        nd = len(DESC_RE.findall(text))
        prev = els[i - 1] if i > 0 else None
        nxt = els[i + 1] if i + 1 < n else None
        if prev is not None and prev["k"] == "sto" and nd == 0:
            r = terminal_ref(prev["right"])
            text = same_symbol_text(r) + order_prefix(r) + text
            nd += 1
        if nxt is not None and nxt["k"] == "sto":
            need = 2 if prev is not None else 1
            if nd < need:
                l = terminal_ref(nxt["left"])
                text = text + order_prefix(l) + same_symbol_text(l, weight0=True)
        out.append({"k": "tok", "text": text})
    return {"elements": out, "mixture": spec.get("mixture")}


# ----------------------------------------------------------------------------- generation model


class MolState:
    """partial molecule: residues (token texts), bonds ((res,desc),(res,desc)), open descriptors (res,desc)"""

    __slots__ = ("res", "bonds", "open", "reserved", "_canon")

    def __init__(self, res, bonds, open_, reserved=None):
        self.res = tuple(res)
        self.bonds = tuple(bonds)
        self.open = tuple(open_)
        self.reserved = reserved
        self._canon = None

    def desc(self, rd):
        return token_ref(self.res[rd[0]]).descs[rd[1]]

    def mass(self):
        return sum(token_ref(t).mass for t in self.res)

    def attach(self, o, token_text, j):
        """bond open descriptor o (res,desc) to descriptor j of a fresh copy of token_text"""
        r = len(self.res)
        tr = token_ref(token_text)
        new_open = [x for x in self.open if x != o] + [(r, k) for k in range(len(tr.descs)) if k != j]
        return MolState(self.res + (token_text,), self.bonds + ((o, (r, j)),), new_open, self.reserved)

    def canon(self, labels):
        if self._canon is None:
            self._canon = canon_of(self.res, self.bonds, list(self.open) + ([self.reserved] if self.reserved else []), labels, self.reserved)
        return self._canon


def assemble(res, bonds, open_, labels, reserved=None):
    """Build the RDKit molecule denoted by residues + descriptor-level bonds.  Atom map = label*100+local+1;
    open descriptors stay as dummy atoms with isotope = 1 + label*10 + descriptor index (+500 if reserved)."""
    rw = Chem.RWMol()
    offs = []
    dummy_global = {}
    for r, text in enumerate(res):
        tr = token_ref(text)
        off = rw.GetNumAtoms()
        offs.append(off)
        rw.InsertMol(tr.mol)
        lab = labels[text]
        for li, g in enumerate(tr.real):
            a_ = rw.GetAtomWithIdx(off + g)
            a_.SetAtomMapNum(lab * 100 + li + 1)
            if tr.bracket[li]:
                forget_bracket_hydrogens(a_)
        for k, g in enumerate(tr.dummy_idx):
            a = rw.GetAtomWithIdx(off + g)
            iso = 1 + lab * 10 + tr.desc_class[k]
            if reserved == (r, k):
                iso += 500
            a.SetIsotope(iso)
            dummy_global[(r, k)] = off + g
    kill = []
    for (a, b) in bonds:
        da, db = dummy_global[a], dummy_global[b]
        na = rw.GetAtomWithIdx(da).GetNeighbors()[0].GetIdx()
        nb = rw.GetAtomWithIdx(db).GetNeighbors()[0].GetIdx()
        bt = rw.GetBondBetweenAtoms(da, na).GetBondType()
        rw.AddBond(na, nb, bt)
        kill += [da, db]
    for idx in sorted(kill, reverse=True):
        rw.RemoveAtom(idx)
    return rw


def forget_bracket_hydrogens(atom):
    """hydrogen count (and the radical bookkeeping that follows from it) of an atom written in brackets is not compared"""
    atom.SetNumExplicitHs(0)
    atom.SetNoImplicit(True)
    atom.SetNumRadicalElectrons(0)


def canon_of(res, bonds, open_, labels, reserved=None):
    rw = assemble(res, bonds, open_, labels, reserved)
    m = rw.GetMol()
    try:
        Chem.SanitizeMol(m)
    except Exception as e:  # noqa
        raise RefError(f"model molecule does not sanitise: {e}")
    Chem.RemoveStereochemistry(m)  # stereo labels are outside every property here (their meaning depends on bond insertion order)
    return Chem.MolToSmiles(m)


def plain_smiles_of_labelled(smi):
    m = Chem.MolFromSmiles(smi)
    for a in m.GetAtoms():
        a.SetAtomMapNum(0)
    Chem.RemoveStereochemistry(m)
    return Chem.MolToSmiles(m)


def canon_plain(smi):
    """canonical SMILES without stereo labels"""
    m = Chem.MolFromSmiles(smi)
    Chem.RemoveStereochemistry(m)
    return Chem.MolToSmiles(m)


def weights_to_probs(ws):
    """the documented selection law: proportional to weight; equal weights (also all zero) = uniform"""
    if not ws:
        return []
    if all(abs(w - ws[0]) < 1e-12 for w in ws):
        return [1.0 / len(ws)] * len(ws)
    s = sum(ws)
    return [w / s for w in ws]


class ModelError(Exception):
    """the model predicts that generation cannot proceed on this path (library must raise)"""


class GenModel:
    def __init__(self, nspec, targets, max_states=200000, max_steps=60):
        self.spec = nspec
        self.targets = list(targets)
        self.max_states = max_states
        self.max_steps = max_steps
        self.states = 0
        self.transitions = 0
        texts = []
        for e in nspec["elements"]:
            if e["k"] == "tok":
                texts.append(e["text"])
            else:
                texts += e["rep"] + e["end"]
        self.labels = {t: i + 1 for i, t in enumerate(sorted(set(texts)))}
        self.err = 0.0  # probability mass on paths where the library must raise
        self.err_reasons = set()
        self.boundary = False  # some mass comparison fell within 1e-6 of the target
        self.capped = False

    # layers are dicts canon -> [prob, MolState]
    def _add(self, layer, st, p):
        c = st.canon(self.labels) if st is not None else "<none>"
        if c in layer:
            layer[c][0] += p
        else:
            layer[c] = [p, st]
            self.states += 1
            if self.states > self.max_states:
                self.capped = True
                raise ModelError("state cap")
        self.transitions += 1

    def _fail(self, p, why):
        self.err += p
        self.err_reasons.add(why)

    def run(self):
        layer = {}
        self._add(layer, None, 1.0)
        ti = 0
        for e in self.spec["elements"]:
            nxt = {}
            if e["k"] == "tok":
                for c, (p, st) in layer.items():
                    self._token_step(nxt, st, p, e["text"])
            else:
                t = self.targets[ti]
                ti += 1
                for c, (p, st) in layer.items():
                    self._sto_step(nxt, st, p, e, t)
            layer = nxt
        return {c: (p, st) for c, (p, st) in layer.items()}

    # --- token element
    def _token_step(self, out, st, p, text):
        tr = token_ref(text)
        if st is None:
            self._add(out, MolState([text], [], [(0, k) for k in range(len(tr.descs))]), p)
            return
        if len(st.open) != 1:
            self._fail(p, "prefix must have exactly one open descriptor")
            return
        o = st.open[0]
        od = st.desc(o)
        cand = [k for k, d in enumerate(tr.descs) if compat(od, d)]
        if not cand:
            self._fail(p, "token has no descriptor compatible with the open one")
            return
        pr = weights_to_probs([tr.descs[k].weight for k in cand])
        for k, q in zip(cand, pr):
            if q > 0:
                self._add(out, st.attach(o, text, k), p * q)

    # --- stochastic element
    def _sto_step(self, out, st, p, e, target):
        L = terminal_ref(e["left"])
        R = terminal_ref(e["right"])
        rep = [(t, k) for t in e["rep"] for k in range(len(token_ref(t).descs))]
        end = [(t, k) for t in e["end"] for k in range(len(token_ref(t).descs))]
        alld = rep + end

        def dref(tk):
            return token_ref(tk[0]).descs[tk[1]]

        first_override = None
        starts = {}
        if st is None:
            if L.symbol != "":
                self._fail(p, "no prefix but left terminal not empty")
                return
            if not end:
                self._fail(p, "no end group to start from")
                return
            pr = weights_to_probs([dref(x).weight for x in end])
            for x, q in zip(end, pr):
                if q <= 0:
                    continue
                if len(token_ref(x[0]).descs) != 1:
                    self._fail(p * q, "start end group needs exactly one descriptor")
                    continue
                self._add(starts, MolState([x[0]], [], [(0, 0)]), p * q)
        else:
            if len(st.open) != 1:
                self._fail(p, "prefix must have exactly one open descriptor")
                return
            od = st.desc(st.open[0])
            if L.symbol == "" or od.symbol != L.symbol or od.id != L.id:
                self._fail(p, "open descriptor of prefix differs from left terminal")
                return
            first_override = L
            self._add(starts, st, p)

        for c0, (p0, s0) in starts.items():
            m0 = s0.mass()
            layer = {c0: [p0, s0]}
            first = True
            steps = 0
            while layer:
                steps += 1
                if steps > self.max_steps:
                    self.capped = True
                    raise ModelError("step cap")
                nxt = {}
                for c, (pp, s) in layer.items():
                    # one growth step
                    ws = [s.desc(o).weight for o in s.open]
                    if first and first_override is not None:
                        ws = [first_override.weight]
                    pr_o = weights_to_probs(ws)
                    for o, qo in zip(s.open, pr_o):
                        if qo <= 0:
                            continue
                        od = s.desc(o)
                        trans = od.transitions
                        if first and first_override is not None:
                            trans = first_override.transitions
                        grown = []
                        if trans is not None:
                            if len(trans) != len(alld):
                                self._fail(pp * qo, "transition list length")
                                continue
                            tot = sum(trans)
                            for idx, w in enumerate(trans):
                                if w <= 0:
                                    continue
                                x = alld[idx]
                                if not compat(od, dref(x)):
                                    self._fail(pp * qo * w / tot, "transition list selects an incompatible descriptor")
                                    continue
                                grown.append((x, w / tot))
                        else:
                            cand = [x for x in rep if compat(od, dref(x))]
                            if not cand:
                                self._fail(pp * qo, "no compatible repeat-unit descriptor")
                                continue
                            prc = weights_to_probs([dref(x).weight for x in cand])
                            grown = [(x, q) for x, q in zip(cand, prc) if q > 0]
                        for x, q in grown:
                            s2 = s.attach(o, x[0], x[1])
                            p2 = pp * qo * q
                            if not s2.open:
                                self._add(out, s2, p2)  # premature end: nothing left to grow or cap
                                continue
                            added = s2.mass() - m0
                            if abs(added - target) < 1e-6:
                                self.boundary = True
                            # the library finalises a copy after every step; it must be possible
                            fin, ferr = self._finalize(s2, e, R, end)
                            if ferr > 0:
                                self._fail(p2 * ferr, "finalisation impossible")
                                p2 = p2 * (1 - ferr)
                                fin = {k: [v[0] / (1 - ferr), v[1]] for k, v in fin.items()} if ferr < 1 else {}
                                if p2 <= 0:
                                    continue
                            if added > target:
                                for ck, (pf, sf) in fin.items():
                                    self._add(out, sf, p2 * pf)
                            else:
                                self._add(nxt, s2, p2)
                layer = nxt
                first = False

    def _finalize(self, s, e, R, end):
        """distribution over finalised molecules: returns ({canon: [prob, state]}, error probability)"""

        def dref(tk):
            return token_ref(tk[0]).descs[tk[1]]

        err = 0.0
        layer = {}
        if R.symbol != "":
            inv = DescRef(R.symbol, R.id, 1.0, None, order=R.order)  # what bonds to the descriptor left open
            cand = [o for o in s.open if compat(s.desc(o), inv)]
            if not cand:
                return {}, 1.0
            pr = weights_to_probs([s.desc(o).weight for o in cand])
            for o, q in zip(cand, pr):
                if q > 0:
                    s2 = MolState(s.res, s.bonds, [x for x in s.open if x != o], reserved=o)
                    ck = s2.canon(self.labels)
                    if ck in layer:
                        layer[ck][0] += q
                    else:
                        layer[ck] = [q, s2]
                    self.transitions += 1
        else:
            s2 = MolState(s.res, s.bonds, s.open, reserved=None)
            layer[s2.canon(self.labels)] = [1.0, s2]
        done = {}
        guard = 0
        while layer:
            guard += 1
            if guard > 40:
                self.capped = True
                raise ModelError("capping does not terminate")
            nxt = {}
            for c, (p, st) in layer.items():
                if not st.open:
                    fin = MolState(st.res, st.bonds, [st.reserved] if st.reserved else [], reserved=None)
                    ck = fin.canon(self.labels)
                    if ck in done:
                        done[ck][0] += p
                    else:
                        done[ck] = [p, fin]
                    continue
                pr_o = weights_to_probs([st.desc(o).weight for o in st.open])
                for o, qo in zip(st.open, pr_o):
                    if qo <= 0:
                        continue
                    od = st.desc(o)
                    cand = [x for x in end if compat(od, dref(x))]
                    if not cand:
                        err += p * qo
                        continue
                    prc = weights_to_probs([dref(x).weight for x in cand])
                    for x, q in zip(cand, prc):
                        if q <= 0:
                            continue
                        s3 = st.attach(o, x[0], x[1])
                        ck = s3.canon(self.labels)
                        self.transitions += 1
                        if ck in nxt:
                            nxt[ck][0] += p * qo * q
                        else:
                            nxt[ck] = [p * qo * q, s3]
                            self.states += 1
            layer = nxt
        return done, err
