"""C18 - atom-graph generation yields trees of whole residues joined along graph edges.

For every Schulz-Zimm molecule of the bounded enumeration the stochastic atom graph is built and EVERY sequence of random
answers (choices and the draw menu) of the real AtomGraph.generate is executed.  Per execution: termination, sanitisable
connected molecule, atoms partition into residue instances that contain all atoms and internal bonds of their token, every
bond between residues lies on a non-static edge of the stochastic atom graph with the same bond order, residues form a
tree; the same script gives the same molecule.
"""
from .. import refsem as R
from ..common import HarnessError, new_result, run_limited, viol
from ..scripted import ScriptedGenerator, explore
from . import c17

ANCHORS = ["src/gbigsmiles/graph_generate.py", "src/gbigsmiles/stochastic_atom_graph.py"]
LEVEL_RULE = (
    "all sequences of generator answers (choices + draw menu) of AtomGraph.generate for bounded Schulz-Zimm molecules: state = one choice point, transition = one "
    "answer, trace = one complete execution judged; non-trivial = distinct molecules"
)
ASSUMPTIONS = [
    "atoms are attributed to tokens through the node attribute stochastic_node and the reference node numbering of C17",
    "draw menu of two quantiles per Schulz-Zimm draw; an execution needing more than 20 s counts as non-terminating",
]
BOUNDS = {"quick": "15 molecules + 4 token topologies x 5 roles, <= 3000 executions each", "thorough": "30 molecules, <= 40000 executions each"}
CASE_TIMEOUT = {"quick": 600, "thorough": 3000}
MAX_EXEC = {"quick": 3000, "thorough": 40000}

S, T = R.sto, R.tok


def sz(mw, mn):
    return f"schulz_zimm({mw}, {mn})"


def molecules(tier):
    out = [
        ("homo", {"elements": [T("N"), S("[>]", ["[<]CC[>]"], [], "[<]", sz(70, 60)), T("F")], "mixture": None}),
        ("homo-endgroups", {"elements": [S("[]", ["[<]CC[>]"], ["[>]N", "[<]F"], "[]", sz(70, 60))], "mixture": None}),
        ("multiatom-endgroup", {"elements": [S("[]", ["[<]CC[>]"], ["[>]OCCF", "[<]NCl"], "[]", sz(70, 60))], "mixture": None}),
        ("copolymer", {"elements": [T("N"), S("[>]", ["[<]CC[>]", "[<|2|]CO[>]"], [], "[<]", sz(60, 50)), T("F")], "mixture": None}),
        ("sym", {"elements": [S("[]", ["[$]CC[$]"], ["[$][H]", "[$]O"], "[]", sz(60, 50))], "mixture": None}),
        ("two-blocks", {"elements": [T("N"), S("[>]", ["[<]CC[>]"], [], "[<]", sz(50, 40)), S("[>]", ["[<]CO[>]"], [], "[<]", sz(55, 45)), T("F")], "mixture": None}),
        ("connector", {"elements": [T("N"), S("[>]", ["[<]CC[>]"], [], "[<]", sz(50, 40)), T("S"), S("[>]", ["[<]CO[>]"], [], "[<]", sz(55, 45)), T("F")], "mixture": None}),
        ("ring-unit", {"elements": [T("C"), S("[>]", ["[<]CC([>])c1ccccc1"], [], "[<]", sz(150, 120)), T("[H]")], "mixture": None}),
        ("branched", {"elements": [S("[]", ["[<]CC([>])[>]"], ["[>]N", "[<]O"], "[]", sz(45, 40))], "mixture": None}),
        ("translist", {"elements": [T("N"), S("[>]", ["[<]CC[>|0 0 1 0 0|]", "[<]CO[>|1 0 0 0 0|]"], ["[<]Cl"], "[<]", sz(70, 60)), T("F")], "mixture": None}),
        ("double-bond", {"elements": [S("[]", ["[$]=CC=[$]"], ["[$]=O", "[$]=C"], "[]", sz(60, 50))], "mixture": None}),
        ("branched-then-suffix", {"elements": [T("N"), S("[>]", ["[<]CC(O[>])CO[>]"], ["[<]Cl"], "[<]", sz(150, 120)), T("F")], "mixture": None}),
        ("sym-chain-then-suffix", {"elements": [S("[]", ["[$]CO[$]"], ["[$]Cl", "[$|0|]Br"], "[$]", sz(60, 50)), T("F")], "mixture": None}),
        ("two-bond-orders-on-one-atom", {"elements": [S("[]", ["[<]CC(=[$])[>]"], ["[>]Br", "[<]I", "[$]=O"], "[]", sz(70, 60))], "mixture": None}),
        ("multiatom-prefix", {"elements": [T("CCO"), S("[>]", ["[<]CC[>]"], [], "[<]", sz(60, 50)), T("C(F)F")], "mixture": None}),
    ]
    # token topology x role: every role (end group, prefix, suffix, connector, repeat unit) with a ring, an aromatic ring,
    # a branched, an unsaturated and a fused-ring token (the others stay simple)
    topo = {"ring": "C1CCCCC1", "aromatic": "c1ccccc1", "branched": "C(C)(C)CO", "unsaturated": "C(C#N)=C", "fused": "C1CCC2CCCCC2C1"}
    if tier != "thorough":
        topo.pop("fused")
    for tn, body in topo.items():
        out += [
            (f"endgroup-{tn}", {"elements": [S("[]", ["[<]CO[>]"], ["[>]" + body, "[<]F"], "[]", sz(60, 50))], "mixture": None}),
            (f"prefix-{tn}", {"elements": [T(body), S("[>]", ["[<]CO[>]"], [], "[<]", sz(60, 50)), T("F")], "mixture": None}),
            (f"suffix-{tn}", {"elements": [T("N"), S("[>]", ["[<]CO[>]"], [], "[<]", sz(60, 50)), T(body)], "mixture": None}),
            (f"connector-{tn}", {"elements": [T("N"), S("[>]", ["[<]CO[>]"], [], "[<]", sz(40, 35)), T(body), S("[>]", ["[<]CS[>]"], [], "[<]", sz(50, 45)), T("F")], "mixture": None}),
            (f"unit-{tn}", {"elements": [T("N"), S("[>]", ["[<]C([>])" + body], ["[<]Cl"], "[<]", sz(2 * 90, 150)), T("F")], "mixture": None}),
        ]
    if tier == "thorough":
        out += [
            ("graft", {"elements": [T("N"), S("[>]", ["[<]CC(C[<|0|])[>]"], ["[>]Br"], "[<]", sz(70, 60)), T("O")], "mixture": None}),
            ("three-blocks", {"elements": [T("N"), S("[>]", ["[<]CC[>]"], [], "[<]", sz(40, 35)), S("[>]", ["[<]CO[>]"], [], "[<]", sz(40, 35)), T("S"), S("[>]", ["[<]CS[>]"], [], "[<]", sz(60, 50)), T("F")], "mixture": None}),
            ("weights", {"elements": [T("N"), S("[>]", ["[<|0.5|]CC[>]", "[<|3|]CO[>|2|]"], ["[<]Cl"], "[<]", sz(60, 50)), T("F")], "mixture": None}),
        ]
    return out


def enumerate_cases(tier, seed):
    for name, spec in molecules(tier):
        yield ("molecule", {"name": name, "spec": spec, "tier": tier})


def tile(g, sn, owner, tok_text, budget=200000):
    """search a partition of the atom graph into whole token copies (all atoms, all internal bonds with their order).
    returns ({node: residue index}, None) or (None, (token text, local atoms found, natoms, token key)) for the first
    node that cannot be completed."""
    nodes = sorted(g.nodes)
    assigned = {}
    steps = [0]
    fail = [None]

    def place(idx, ridx):
        while idx < len(nodes) and nodes[idx] in assigned:
            idx += 1
        if idx == len(nodes):
            return True
        v = nodes[idx]
        tk, loc0 = owner[sn[v]]
        tr = R.token_ref(tok_text[tk])
        adj = {}
        for (i, j, o) in tr.bonds:
            adj.setdefault(i, []).append((j, c17.BT[o]))
            adj.setdefault(j, []).append((i, c17.BT[o]))
        # grow a copy from v by depth-first assignment of local atoms
        order = [loc0]
        parent = {}
        seen = {loc0}
        stack = [loc0]
        while stack:
            x = stack.pop()
            for (y, bt) in adj.get(x, []):
                if y not in seen:
                    seen.add(y)
                    parent[y] = (x, bt)
                    order.append(y)
                    stack.append(y)
        if len(seen) != tr.natoms:
            # a token whose atoms are not connected (SMILES with a dot): treat every written piece separately is out of scope
            fail[0] = (tok_text[tk], [loc0], tr.natoms, tk)
            return False

        def grow(k, mapping):
            steps[0] += 1
            if steps[0] > budget:
                raise HarnessError("tiling search budget exceeded")
            if k == len(order):
                # all internal bonds present with the right order, and no extra bond inside the copy
                inv = {n_: l for l, n_ in mapping.items()}
                for (i, j, o) in tr.bonds:
                    if not g.has_edge(mapping[i], mapping[j]) or g.edges[mapping[i], mapping[j]].get("bond_type") != c17.BT[o]:
                        return False
                for n_ in mapping.values():
                    assigned[n_] = ridx
                if place(idx + 1, ridx + 1):
                    return True
                for n_ in mapping.values():
                    del assigned[n_]
                return False
            y = order[k]
            x, bt = parent[y]
            for w in g.neighbors(mapping[x]):
                if w in assigned or w in mapping.values():
                    continue
                if owner[sn[w]] != (tk, y):
                    continue
                if g.edges[mapping[x], w].get("bond_type") != bt:
                    continue
                mapping[y] = w
                if grow(k + 1, mapping):
                    return True
                del mapping[y]
            if fail[0] is None or len(mapping) >= len(fail[0][1]):
                fail[0] = (tok_text[tk], sorted(mapping.keys()), tr.natoms, tk)
            return False

        return grow(1, {loc0: v})

    if place(0, 0):
        return dict(assigned), None
    return None, fail[0]


def eval_case(kind, data):
    import gbigsmiles
    from gbigsmiles.graph_generate import AtomGraph
    from rdkit import Chem

    res = new_result()
    spec, name = data["spec"], data["name"]
    text = R.print_spec(spec)
    nspec = R.normalize(spec)
    try:
        mol = gbigsmiles.Molecule(text)
        sag = mol.gen_stochastic_atom_graph(expect_schulz_zimm_distribution=True)
    except Exception as e:  # noqa
        viol(res, f"C18|graph-build-raises|{name}", f"{text}: {type(e).__name__} {str(e)[:80]}", {"text": text})
        return res
    nodes, static, other, offs = c17.ref_graph(nspec)
    # node id -> (token key (ei, ti), local atom)
    owner = {}
    tok_text = {}
    for (ei, ti), off in offs.items():
        e = nspec["elements"][ei]
        t = e["text"] if e["k"] == "tok" else (e["rep"] + e["end"])[ti]
        tok_text[(ei, ti)] = t
        for k in range(R.token_ref(t).natoms):
            owner[off + k] = ((ei, ti), k)
    # non-static edges of the REAL stochastic graph (the property refers to it), undirected lookup
    G = sag.graph
    nonstatic = {}
    for a, b, ed in G.edges(data=True):
        if ed.get("static_weight", 0) == 0:
            nonstatic.setdefault((min(a, b), max(a, b)), set()).add(ed.get("bond_type"))

    def run(rng, shared=False):
        def go():
            # a fresh stochastic graph for every execution: an execution has no history.  shared=True builds the AtomGraph
            # on the ONE stochastic graph of this case (the way the documentation uses it), after all earlier ones.
            g_ = sag if shared else gbigsmiles.Molecule(text).gen_stochastic_atom_graph(expect_schulz_zimm_distribution=True)
            ag = AtomGraph(g_, rng=rng)
            ag.generate()
            return ag

        st, out = run_limited(go, (), 20)
        return st, out

    def graph_smiles(g_):
        """the molecule the generated atom graph denotes, built here from its nodes and edges"""
        rw = Chem.RWMol()
        idx = {}
        for v, d in g_.nodes(data=True):
            idx[v] = rw.AddAtom(Chem.Atom(int(d["atomic_num"])))
        for a, b, d in g_.edges(data=True):
            rw.AddBond(idx[a], idx[b], Chem.BondType(int(d["bond_type"])))
        m_ = rw.GetMol()
        Chem.SanitizeMol(m_)
        return Chem.MolToSmiles(m_)

    done = []

    n = 0
    outcomes = set()
    for rng, (st, out) in explore(run, max_exec=MAX_EXEC[data["tier"]], menu=(0.2, 0.8)):
        n += 1
        res["states"] += len(rng.points)
        res["transitions"] += len(rng.points)
        script = rng.choices
        if st in ("timeout", "memory"):
            viol(res, f"C18|does-not-terminate|{name}", f"{text}: AtomGraph.generate {st}", {"text": text, "script": script})
            continue
        if st != "ok" and "single source node" in str(out):
            res["extra"]["graphs_without_start_node"] = res["extra"].get("graphs_without_start_node", 0) + 1
            continue  # the property only speaks about graphs that have a start node
        if st != "ok":
            viol(res, f"C18|generate-raises|{name}|{str(out).split('(')[0]}", f"{text}: AtomGraph.generate raises {out}", {"text": text, "script": script})
            continue
        ag = out
        g = ag.graph
        # to_mol
        try:
            m = ag.to_mol()
            smi = Chem.MolToSmiles(m)
        except Exception as e:  # noqa
            viol(res, f"C18|not-sanitisable|{name}", f"{text}: to_mol raises {type(e).__name__}: {str(e)[:80]}", {"text": text, "script": script})
            continue
        outcomes.add(smi)
        # an observer: drawing the generated molecule must not change it
        try:
            from gbigsmiles.core import molecule_atom_graph_to_dot_string

            molecule_atom_graph_to_dot_string(ag)
            smi_after = Chem.MolToSmiles(ag.to_mol())
            if smi_after != smi or graph_smiles(ag.graph) != smi:
                viol(res, f"C18|drawing-changes-the-generated-molecule|{name}", f"{text}: after molecule_atom_graph_to_dot_string() the generated molecule {smi} reads {smi_after} / its graph denotes {graph_smiles(ag.graph)}", {"text": text, "script": script})
        except ImportError:
            pass
        except Exception as e:  # noqa
            viol(res, f"C18|drawing-changes-the-generated-molecule|{name}", f"{text}: after molecule_atom_graph_to_dot_string() the generated molecule {smi} can no longer be read: {type(e).__name__}: {str(e)[:60]}", {"text": text, "script": script})
        g = ag.graph
        if len(done) < 250:
            done.append((list(script), smi))
        try:
            if graph_smiles(g) != smi:
                viol(res, f"C18|to_mol-is-not-the-generated-graph|{name}", f"{text}: to_mol() gives {smi}, the generated atom graph denotes {graph_smiles(g)}", {"text": text, "script": script})
        except Exception:  # noqa
            pass
        if "." in smi:
            viol(res, f"C18|disconnected|{name}", f"{text}: generated {smi}", {"text": text, "script": script})
        # residues: the atoms must PARTITION into whole copies of the tokens (existential: a tiling is searched)
        import networkx as nx

        sn = {v: g.nodes[v]["stochastic_node"] for v in g.nodes}
        if any(owner.get(sn[v]) is None for v in g.nodes):
            viol(res, f"C18|foreign-atom|{name}", f"{text}: an atom's stochastic_node is not an atom of the string", {"text": text, "script": script})
            continue
        tiling, why = tile(g, sn, owner, tok_text)
        if tiling is None:
            t, locs, nat, tk = why
            # diagnose: is there an end-group token with several atoms of which only attachment atoms were generated?
            cut = False
            for tk2, t2 in tok_text.items():
                e2 = nspec["elements"][tk2[0]]
                if e2["k"] != "sto" or tk2[1] < len(e2["rep"]):
                    continue
                tr2 = R.token_ref(t2)
                if tr2.natoms < 2:
                    continue
                present = {owner[sn[v]][1] for v in g.nodes if owner[sn[v]][0] == tk2}
                if present and present <= {d.atom for d in tr2.descs}:
                    cut = True
            cls = "end-group-cut-to-attachment-atom" if cut else f"other|{name}"
            viol(res, f"C18|incomplete-residue|{cls}", f"{text}: generated {smi}: no partition into whole token copies exists; e.g. a residue of token {t} only finds atoms {locs} of {nat}", {"text": text, "script": script})
            continue
        comp_of = tiling
        ncomp = len(set(comp_of.values()))
        inter = [(a, b, ed.get("bond_type")) for a, b, ed in g.edges(data=True) if comp_of[a] != comp_of[b]]
        # inter-residue bonds lie on non-static edges with the same order
        for a, b, bt in inter:
            key = (min(sn[a], sn[b]), max(sn[a], sn[b]))
            if key not in nonstatic:
                viol(res, f"C18|bond-off-graph|{name}", f"{text}: bond between atoms {sn[a]} and {sn[b]} of the stochastic graph is on no non-static edge", {"text": text, "script": script})
            elif bt not in nonstatic[key]:
                viol(res, f"C18|bond-order|{name}", f"{text}: bond {sn[a]}-{sn[b]} has type {bt}, graph edges {nonstatic[key]}", {"text": text, "script": script})
        # an atom cannot carry more bonds to other residues than it has descriptors (a capped end is not used again)
        nb_at = {}
        for a, b, bt in inter:
            nb_at[a] = nb_at.get(a, 0) + 1
            nb_at[b] = nb_at.get(b, 0) + 1
        for v, cnt in nb_at.items():
            tk, loc = owner[sn[v]]
            nd = sum(1 for d in R.token_ref(tok_text[tk]).descs if d.atom == loc)
            if cnt > nd:
                viol(res, f"C18|attachment-atom-overused|{name}", f"{text}: generated {smi}: atom {loc} of a copy of {tok_text[tk]} has {cnt} bonds to other residues but carries {nd} bond descriptor(s)", {"text": text, "script": script})
                break
        # tree of residues
        Tg = nx.Graph()
        Tg.add_nodes_from(set(comp_of.values()))
        pairs = [(comp_of[a], comp_of[b]) for a, b, _ in inter]
        Tg.add_edges_from(pairs)
        if len(set(map(frozenset, pairs))) != len(pairs):
            viol(res, f"C18|double-bonded-residues|{name}", f"{text}: two residues joined twice ({smi})", {"text": text, "script": script})
        elif ncomp and (not nx.is_connected(Tg) or Tg.number_of_edges() != ncomp - 1):
            viol(res, f"C18|not-a-tree|{name}", f"{text}: {ncomp} residues, {Tg.number_of_edges()} joins, connected={nx.is_connected(Tg)} ({smi})", {"text": text, "script": script})
        # determinism: replay the same script (every 7th execution)
        if n % 7 == 1:
            r2 = ScriptedGenerator(script, menu=(0.2, 0.8))
            st2, out2 = run(r2)
            if st2 != "ok" or Chem.MolToSmiles(out2.to_mol()) != smi:
                viol(res, f"C18|not-deterministic|{name}", f"{text}: replaying the same answers gives a different molecule", {"text": text, "script": script})
    # every execution again, now on ONE shared stochastic graph (AtomGraph objects built one after the other on it): same
    # answers, same molecule - nothing may be carried from one AtomGraph to the next through the graph they share
    for sc, smi0 in done:
        r2 = ScriptedGenerator(sc, menu=(0.2, 0.8))
        st2, out2 = run(r2, shared=True)
        n += 1
        res["transitions"] += len(sc)
        try:
            same = st2 == "ok" and len(r2.points) == len(sc) and Chem.MolToSmiles(out2.to_mol()) == smi0
        except Exception:  # noqa
            same = False
        if not same:
            viol(res, f"C18|depends-on-earlier-generation-on-the-same-stochastic-graph|{name}", f"{text}: the answers {sc} give {smi0} on a fresh stochastic graph; on a stochastic graph that earlier AtomGraph objects were built on, the same answers {'are not all asked for (' + str(len(r2.points)) + ' requests)' if st2 == 'ok' and len(r2.points) != len(sc) else 'give another result'}", {"text": text, "script": sc})
            break
    # the same AtomGraph object generating a second time must again hold one molecule (object reuse)
    import networkx as nx

    for sc in ([], [1], [0, 1], [1, 1, 1]):
        def twice():
            ag = AtomGraph(sag, rng=ScriptedGenerator(sc, menu=(0.2, 0.8)))
            ag.generate()
            try:
                ag.to_mol()  # looking at the first molecule must not influence what is reported for the second
            except Exception:  # noqa
                pass
            ag.rng = ScriptedGenerator(list(reversed(sc)), menu=(0.2, 0.8))
            ag.generate()
            return ag

        st, out = run_limited(twice, (), 40)
        res["transitions"] += 2
        n += 1
        if st == "ok":
            try:
                smi2 = Chem.MolToSmiles(out.to_mol())
                if graph_smiles(out.graph) != smi2:
                    viol(res, f"C18|to_mol-is-not-the-generated-graph|second-generate|{name}", f"{text}: after generate(), to_mol(), generate() on one AtomGraph object to_mol() gives {smi2}, the current atom graph denotes {graph_smiles(out.graph)}", {"text": text, "script": sc})
                if "." in smi2 or not nx.is_connected(out.graph):
                    viol(res, f"C18|second-generate-not-one-molecule|{name}", f"{text}: after a second generate() on the same AtomGraph object the result is {smi2}", {"text": text, "script": sc})
            except Exception as e:  # noqa
                viol(res, f"C18|second-generate-not-sanitisable|{name}", f"{text}: second generate() on the same object: {type(e).__name__}: {str(e)[:60]}", {"text": text, "script": sc})
        elif st in ("timeout", "memory"):
            viol(res, f"C18|second-generate-does-not-terminate|{name}", f"{text}: second generate() {st}", {"text": text, "script": sc})
        elif "single source node" not in str(out) and "out of range" not in str(out) and "HarnessError" not in str(out):
            viol(res, f"C18|second-generate-raises|{name}|{str(out).split('(')[0]}", f"{text}: second generate() on the same object raises {out}", {"text": text, "script": sc})
    res["capped"] = bool(explore.capped)
    if res["capped"]:
        res["capped_note"] = f"every execution with <= {explore.completed_bound} deviations from the default answers covered"
    res["traces"] = n
    res["evals"] = n
    res["nontrivial"] = [name, n]
    res["outcomes"] = [f"{name}:{s}" for s in sorted(outcomes)][:80]
    res["sample"] = {"molecule": text, "executions": n, "distinct_molecules": len(outcomes), "examples": sorted(outcomes)[:4]}
    return res
