"""C09 - block sizes in an ensemble follow the declared molecular-weight distribution.

Instead of sampling thousands of generations, EVERY quantile of a grid is pushed through the real generation path: a
scripted generator answers the draw of each stochastic object with the grid quantile (families drawn by inverse transform
receive the quantile itself; gauss / poisson ask numpy for standard_normal / poisson(lam) - the request is checked against
the declared parameters and answered with the reference quantile).  Per grid point the observed number of repeat units must
be min{n >= 1 : n*m > t} with t the reference inverse cdf of the DOCUMENTED law and parameter order; hence the probability
that a block stops after n units equals the law's mass between the cumulative masses, to resolution 1/J.  Two- and
three-block molecules use the product grid: independence and one draw per block.
"""
import itertools
import math

from ..common import new_result, run_limited, viol
from ..scripted import ScriptedGenerator
from .c11 import DiscretisedSZ, Ref, dist_text

ANCHORS = ["src/gbigsmiles/stochastic.py", "src/gbigsmiles/distribution.py"]
LEVEL_RULE = (
    "family x parameter region x unit x quantile grid (product grid for several blocks): state = one grid point, transition = the draw answered by the scripted "
    "generator, trace = one real Molecule.generate whose block sizes are compared with the reference inverse cdf; non-trivial = distinct (law, unit, blocks) cases"
)
ASSUMPTIONS = [
    "block-size probabilities are decided to the resolution 1/J of the quantile grid; grid points whose reference target lies within 1e-6 (2 mass units for the integer-mass Schulz-Zimm law) of a unit boundary are skipped and counted",
    "numpy's standard_normal / poisson samplers trusted; the request parameters are checked at the seam",
    "quantiles at which the draw itself fails are C11's findings and are skipped here (counted)",
]
BOUNDS = {"quick": "6 families x 2 parameter regions, J=160; two blocks 12x12; three blocks 5^3", "thorough": "6 families x 4 regions x 2 units, J=600; two blocks 24x24; three blocks 8^3"}
CASE_TIMEOUT = {"quick": 900, "thorough": 3000}

CASES = {
    "quick": [
        ("gauss", (100.0, 30.0)), ("gauss", (20.0, 60.0)), ("uniform", (12, 172)), ("uniform", (100, 101)),
        ("schulz_zimm", (150.0, 120.0)), ("schulz_zimm", (400.0, 300.0)), ("schulz_zimm", (400.0, 200.0)), ("log_normal", (90.0, 1.3)), ("log_normal", (300.0, 1.05)),
        ("poisson", (65.0,)), ("poisson", (250.0,)), ("flory_schulz", (0.1,)), ("flory_schulz", (0.02,)),
    ],
    "thorough": [
        ("gauss", (100.0, 30.0)), ("gauss", (20.0, 60.0)), ("gauss", (600.0, 10.0)), ("gauss", (1000.0, 300.0)),
        ("uniform", (12, 172)), ("uniform", (100, 101)), ("uniform", (0, 400)), ("uniform", (500, 900)),
        ("schulz_zimm", (150.0, 120.0)), ("schulz_zimm", (400.0, 300.0)), ("schulz_zimm", (900.0, 800.0)),
        ("log_normal", (90.0, 1.3)), ("log_normal", (300.0, 1.05)), ("log_normal", (600.0, 1.8)),
        ("poisson", (65.0,)), ("poisson", (250.0,)), ("poisson", (900.0,)),
        ("flory_schulz", (0.1,)), ("flory_schulz", (0.02,)), ("flory_schulz", (0.3,)),
    ],
}
UNITS = ["[<]CC[>]", "[<]CC([>])c1ccccc1", "[<]C([2H])([2H])C([2H])([2H])[>]"]


def enumerate_cases(tier, seed):
    J = 160 if tier == "quick" else 600
    units = UNITS[:1] if tier == "quick" else UNITS
    for (fam, par), u in itertools.product(CASES[tier], units):
        yield ("single", {"fam": fam, "par": list(par), "unit": u, "J": J})
    # isotope-labelled hydrogens stay explicit atoms in the toolkit; they are not heavy atoms
    yield ("single", {"fam": "uniform", "par": [12, 172], "unit": UNITS[2], "J": J})
    yield ("single", {"fam": "gauss", "par": [100.0, 30.0], "unit": UNITS[2], "J": J, "reuse": True})
    J2 = 12 if tier == "quick" else 24
    pairs = [(("schulz_zimm", (400.0, 300.0)), ("schulz_zimm", (150.0, 120.0))), (("schulz_zimm", (600.0, 400.0)), ("schulz_zimm", (105.0, 100.0))), (("log_normal", (600.0, 1.8)), ("log_normal", (60.0, 1.02))), (("flory_schulz", (0.1,)), ("flory_schulz", (0.02,))), (("gauss", (100.0, 30.0)), ("uniform", (12, 172))), (("uniform", (20, 120)), ("uniform", (20, 120))), (("log_normal", (90.0, 1.3)), ("poisson", (65.0,)))]
    if tier == "thorough":
        pairs += [(("gauss", (80.0, 25.0)), ("gauss", (80.0, 25.0))), (("schulz_zimm", (150.0, 120.0)), ("flory_schulz", (0.1,)))]
    for a, b in pairs:
        yield ("multi", {"laws": [[a[0], list(a[1])], [b[0], list(b[1])]], "J": J2})
        # the same parsed object generates every grid point (state kept between generations of one object)
        yield ("multi", {"laws": [[a[0], list(a[1])], [b[0], list(b[1])]], "J": J2, "reuse": True})
    J3 = 5 if tier == "quick" else 8
    yield ("multi", {"laws": [["uniform", [20, 120]], ["gauss", [70.0, 30.0]], ["uniform", [20, 120]]], "J": J3})
    yield ("multi", {"laws": [["uniform", [20, 120]], ["gauss", [70.0, 30.0]], ["uniform", [20, 120]]], "J": J3, "reuse": True})


def ref_target(fam, par, u):
    r = Ref(fam, tuple(par))
    return r.ppf(u)


def expected_units(t, m):
    n = 1
    while n * m <= t:
        n += 1
        if n > 100000:
            return None
    return n


def near_boundary(t, m, fam):
    if t is None or not math.isfinite(t):
        return True
    k = t / m
    slack = 2.0 if fam == "schulz_zimm" else 1e-6
    return t > 0 and abs(k - round(k)) * m <= slack


def eval_case(kind, data):
    import gbigsmiles

    from ..refsem import token_ref

    res = new_result()
    J = data["J"]
    if kind == "single":
        laws = [(data["fam"], tuple(data["par"]))]
        units = [data["unit"]]
    else:
        laws = [(f, tuple(p)) for f, p in data["laws"]]
        units = ["[<]CC[>]", "[<]CO[>]", "[<]CS[>]"][: len(laws)]
    text = "N" + "".join(f"{{[>]{u}[<]}}|{dist_text(f, p)}|" for (f, p), u in zip(laws, units)) + "F"
    masses = [token_ref(u).mass for u in units]
    grid = [(j + 0.5) / J for j in range(J)]
    if kind != "single":
        grid = [0.004] + grid + [0.99, 0.998]  # product grids are coarse: the tails are added explicitly
    shared = gbigsmiles.Molecule(text) if data.get("reuse") else None
    hist = {}
    dsz_cache = {}
    skipped = 0
    failed_draws = 0
    seam = {"gauss": "standard_normal", "poisson": "poisson", "uniform": "uniform", "flory_schulz": "uniform", "schulz_zimm": "uniform", "log_normal": "uniform"}
    for us in itertools.product(grid, repeat=len(laws)):
        res["states"] += 1
        targets = [ref_target(f, p, u) for (f, p), u in zip(laws, us)]
        exp = [expected_units(t, m) for t, m in zip(targets, masses)]
        if any(near_boundary(t, m, f) for t, m, (f, p) in zip(targets, masses, laws)) or any(e is None or e > 400 for e in exp):
            skipped += 1
            continue

        class Gen(ScriptedGenerator):
            pass

        rng = ScriptedGenerator([])
        draws = []
        it = iter(us)
        # answer the k-th draw request with the k-th grid quantile
        menu_holder = {"k": 0}
        orig_draw = rng._draw

        def _draw(kind_, values, info, rng=rng):
            k = menu_holder["k"]
            menu_holder["k"] += 1
            if k >= len(us):
                draws.append((kind_, info, None))
                rng.menu = (0.5,)
                return orig_draw(kind_, values, info)
            u = us[k]
            draws.append((kind_, info, u))
            # recompute the menu values for this quantile
            from scipy.stats import norm, poisson

            if kind_ == "uniform":
                vals = [u]
            elif kind_ == "standard_normal":
                vals = [float(norm.ppf(u))]
            elif kind_ == "normal":
                vals = [float(info["loc"] + info["scale"] * norm.ppf(u))]
            elif kind_ == "poisson":
                vals = [float(poisson.ppf(u, info["lam"]))]
            else:
                vals = values
            return orig_draw(kind_, vals, info)

        rng._draw = _draw
        st, out = run_limited(lambda: (shared if shared is not None else gbigsmiles.Molecule(text)).generate(rng=rng), (), 60)
        res["transitions"] += 1
        res["traces"] += 1
        if st != "ok":
            if st in ("timeout", "memory") or any(k in str(out) for k in ("endless loop", "RuntimeError(updating")):
                failed_draws += 1
                continue
            viol(res, f"C09|generation-raises|{laws[0][0]}", f"{text} at quantiles {us}: {out}", {"text": text, "us": list(us)})
            continue
        mg = out
        if len(draws) != len(laws):
            viol(res, "C09|draw-count", f"{text}: {len(draws)} draws for {len(laws)} stochastic objects", {"text": text, "us": list(us)})
            continue
        bad_seam = False
        for (kind_, info, u), (f, p) in zip(draws, laws):
            if kind_ != seam[f] and not (f == "gauss" and kind_ == "normal"):
                viol(res, f"C09|draw-seam|{f}", f"{text}: declared {f} but the generator was asked for {kind_}", {"text": text})
                bad_seam = True
            if f == "poisson" and kind_ == "poisson" and abs(info["lam"] - p[0]) > 1e-9:
                viol(res, f"C09|poisson-parameter|{f}", f"{text}: declared mean {p[0]} but numpy was asked for poisson({info['lam']})", {"text": text})
                bad_seam = True
            if f == "gauss" and kind_ == "normal" and (abs(info["loc"] - p[0]) > 1e-9 or abs(info["scale"] - p[1]) > 1e-9):
                viol(res, f"C09|gauss-parameter|{f}", f"{text}: declared gauss{p} but numpy was asked for normal({info})", {"text": text})
                bad_seam = True
        if bad_seam:
            continue
        got = []
        for u_text in units:
            ustr = str(gbigsmiles.SmilesToken(u_text, 0, 0))
            got.append(sum(1 for n in mg.graph.nodes if mg.graph.nodes[n]["big_smiles"] == ustr))
        hist[tuple(got)] = hist.get(tuple(got), 0) + 1
        if got != exp:
            # Schulz-Zimm draws invert the partial sums of the density on integer masses (C11's recorded discretisation
            # finding): a block size that is exactly what THAT inverse implies is that finding, not a new one
            alt = list(exp)
            for i, ((f_, p_), u_) in enumerate(zip(laws, us)):
                if f_ == "schulz_zimm" and got[i] != exp[i]:
                    key_ = (f_, tuple(p_))
                    if key_ not in dsz_cache:
                        dsz_cache[key_] = DiscretisedSZ(Ref(f_, tuple(p_)))
                    t_alt = dsz_cache[key_].ppf(u_)
                    if t_alt is not None:
                        alt[i] = expected_units(t_alt, masses[i])
            if got == alt:
                res["extra"]["schulz_zimm_blocks_following_the_discretised_inverse"] = res["extra"].get("schulz_zimm_blocks_following_the_discretised_inverse", 0) + 1
                hist[tuple(got)] = hist.get(tuple(got), 0)
                continue
            which = next(i for i in range(len(laws)) if got[i] != exp[i])
            f, p = laws[which]
            viol(
                res,
                f"C09|block-size|{f}|{'multi' if len(laws) > 1 else 'single'}",
                f"{text}: at quantile(s) {tuple(round(u, 4) for u in us)} block {which} has {got[which]} units; the declared {dist_text(f, p)} has inverse cdf {targets[which]:.4f} there, i.e. {exp[which]} units of mass {masses[which]:.3f}",
                {"text": text, "us": list(us)},
            )
    res["evals"] = res["traces"]
    res["nontrivial"] = [text, J, bool(data.get("reuse"))]
    res["outcomes"] = [f"{text}:{k}" for k in sorted(hist)][:60]
    res["sample"] = {"molecule": text, "grid_points": len(grid) ** len(laws), "skipped_near_boundary": skipped, "skipped_failed_draws": failed_draws, "distinct_block_size_tuples": len(hist)}
    res["extra"] = {"skipped_near_boundary": skipped, "skipped_failed_draws": failed_draws}
    return res
