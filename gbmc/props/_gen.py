"""Shared driver for the generation properties C04..C08: one bounded instance = one case; inside a case the
complete choice tree of the real generator is explored (gbmc.genexp.run_instance)."""
from ..common import new_result, viol
from ..genexp import Instance, run_instance
from ..instances import families, feature_instances

ANCHORS = [
    "src/gbigsmiles/mol_gen.py",
    "src/gbigsmiles/stochastic.py",
    "src/gbigsmiles/token.py",
    "src/gbigsmiles/core.py",
    "src/gbigsmiles/molecule.py",
    "src/gbigsmiles/bond.py",
]
ASSUMPTIONS = [
    "RDKit SMILES parsing, sanitisation and canonical SMILES (with atom maps) are trusted and used on both sides",
    "reference semantics of a token = RDKit reading of the token with descriptors replaced by labelled dummy atoms",
    "bounded instances only: targets of at most ~4 units per object; draw menus are finite",
    "scipy norm.rvs with scale 0 returns loc exactly (checked at run time: such objects make no generator request)",
]
MAX_EXEC = {"quick": 12000, "thorough": 60000}
MAX_SECONDS = {"quick": 500, "thorough": 1500}


def cases(tier, seed, extra=(), long=False):
    # feature-product instances first: they contain the largest choice trees (better pool utilisation)
    fam = list(families(tier, seed))
    for inst in feature_instances(tier, seed) + fam + list(extra):
        yield ("instance", {"inst": inst.as_json(), "tier": tier})
    # long chains (10 - 40 units; light / heavy comonomers, end groups, two blocks): far outside the exhaustive bound, explored
    # completely up to a deviation bound (all executions with at most 2 / 3 departures from the default answers)
    for inst in (long_chain_instances(tier, seed) if long else []):
        yield ("instance", {"inst": inst.as_json(), "tier": tier, "dev_bound": 2 if tier == "quick" else 3})
    # the mirror image of a parsed molecule (gen_mirror): it must generate like the molecule written in reverse
    for inst in fam:
        if len(inst.spec["elements"]) >= 2 and inst.family in ("homo-dir", "homo-rev", "block", "end-initiated", "transitions", "handover", "branched", "ids", "role-topology", "bond-order", "alternating", "handover-details", "nonconjugate-terminals", "mixed-bond-orders"):
            if inst.family == "homo-dir" and not inst.name.endswith("|1.5"):
                continue
            yield ("instance", {"inst": Instance(inst.name + "|mirror", inst.spec, inst.menu, inst.family + "-mirror", mirror=True).as_json(), "tier": tier})
    # observers first (printing, reaction graph twice, stochastic atom graph), then generation from the SAME object
    for inst in fam:
        if inst.family in ("transitions", "handover-details", "branched", "end-initiated", "mixed-bond-orders", "handover", "rand-copolymer"):
            yield ("instance", {"inst": Instance(inst.name + "|after-graphs", inst.spec, inst.menu, inst.family + "-after-graphs", pre="graphs").as_json(), "tier": tier})
    # the same parsed object generating every execution (history between generations of one object)
    for inst in fam:
        if inst.family in ("end-initiated", "transitions", "branched", "handover", "block", "bond-order", "handover-details") or tier == "thorough":
            yield ("instance", {"inst": inst.as_json(), "tier": tier, "reuse": True})


def long_chain_instances(tier, seed):
    from ..instances import g0, mass, mol
    from ..refsem import sto, tok

    light, heavy = "[<]CC[>]", "[<]CC(Br)[>]"
    out = []
    ks = [12.5] + ([20.5, 40.5] if tier == "thorough" else [])
    for k in ks:
        t = round(k * mass(light), 3)
        out.append(Instance(f"long|light-heavy|{k}", mol(tok("N"), sto("[>]", [light, heavy], [], "[<]", g0(t)), tok("F")), family="long-chain"))
        out.append(Instance(f"long|heavy-light|{k}", mol(tok("N"), sto("[>]", [heavy, light], [], "[<]", g0(t)), tok("F")), family="long-chain"))
    t = round(12.5 * mass(light), 3)
    out.append(Instance("long|endgroups", mol(sto("[]", [light, heavy], ["[>]N", "[<]O"], "[]", g0(t))), family="long-chain"))
    # a long block followed by a short one (the cost of one execution grows with the square of the chain length)
    out.append(Instance("long|two-blocks", mol(tok("[H]"), sto("[>]", [light, heavy], [], "[<]", g0(t)), sto("[>]", ["[<]CO[>]", "[<]CS[>]"], [], "[<]", g0(round(2.5 * mass("[<]CO[>]"), 3))), tok("[H]")), family="long-chain"))
    if tier == "thorough":
        out.append(Instance("long|sym", mol(tok("N"), sto("[$]", ["[$]CC[$]", "[$]CC(Br)[$]"], [], "[$]", g0(t)), tok("F")), family="long-chain"))
        out.append(Instance("long|two-long-blocks", mol(tok("[H]"), sto("[>]", [light, heavy], [], "[<]", g0(t)), sto("[>]", ["[<]CO[>]", "[<]CS[>]"], [], "[<]", g0(round(11.5 * mass("[<]CO[>]"), 3))), tok("[H]")), family="long-chain"))
    return out


def corpus_cases(tier, seed):
    """documented full-size strings, explored with a deviation bound (structural per-execution oracles only)"""
    from ..corpus import corpus_instances

    insts = corpus_instances()
    if tier == "quick":
        k = seed % max(1, len(insts))
        insts = (insts[k:] + insts[:k])[:8]
    for inst in insts:
        yield ("corpus", {"inst": inst.as_json(), "tier": tier, "bound": 1 if tier == "quick" else 2})


def _corpus_run(inst, data, want):
    return run_instance(inst, max_exec=120 if data.get("tier") == "quick" else 2500, bound=data["bound"], want=tuple(w for w in want if w in ("C04", "C05")), well_posed=False, model=False, max_seconds=100 if data.get("tier") == "quick" else 900)


def evaluate(pid, want, data, well_posed=None):
    res = new_result()
    inst = Instance.from_json(data["inst"])
    if "dev_bound" in data:
        # an instance far outside the exhaustive bound: complete up to a deviation bound, all per-execution oracles, no
        # comparison of the outcome distribution
        stats, viols, dist = run_instance(inst, max_exec=MAX_EXEC[data.get("tier", "quick")], bound=data["dev_bound"], want=tuple(w for w in want if w != "C08"), well_posed=well_posed, model=True, max_seconds=MAX_SECONDS[data.get("tier", "quick")])
    elif "bound" in data:
        # deviation-bounded exploration of a full-size string: never exhaustive, no model comparison
        try:
            stats, viols, dist = _corpus_run(inst, data, want)
        except MemoryError:
            # a documented full-size string whose molecules outgrow the worker's address space: no verdict for this string
            res["capped"] = True
            res["capped_note"] = "documented full-size string: an execution outgrew the 4 GB worker limit; no verdict"
            res["nontrivial"] = inst.name + "|memory"
            res["sample"] = {"instance": inst.text, "executions": 0}
            return res
        stats["capped"] = False
    else:
        stats, viols, dist = run_instance(inst, max_exec=MAX_EXEC[data.get("tier", "quick")], want=want, well_posed=well_posed, reuse=bool(data.get("reuse")), max_seconds=MAX_SECONDS[data.get("tier", "quick")])
    for key, (what, script) in viols.items():
        if key.startswith(pid + "|"):
            viol(res, key, what, {"script": script, "text": inst.text})
    res["states"] = stats["model_states"] + stats["points"]
    res["transitions"] = stats["model_transitions"] + stats["points"]
    res["traces"] = stats["execs"]
    res["evals"] = stats["execs"]
    res["capped"] = stats["capped"]
    if stats["capped"]:
        res["capped_note"] = f"{stats['execs']} executions; every execution with <= {stats.get('completed_deviation_bound')} deviations from the default answers covered"
    res["nontrivial"] = (inst.name + ("|reused-object" if data.get("reuse") else "")) if stats["execs"] > 0 else None
    res["outcomes"] = [f"{inst.family}:{k[1]}" for k in dist]
    res["sample"] = {"instance": inst.text, "executions": stats["execs"], "choice_points": stats["points"], "distinct_outcomes": stats["outcomes"], "model_states": stats["model_states"]}
    if "dev_bound" in data:
        res["extra"] = {"long_chain_executions": stats["execs"], "long_chain_instances": 1}
        res["nontrivial"] = inst.name + f"|deviation-bound={data['dev_bound']}"
        return res
    if "bound" in data:
        res["extra"] = {"documented_string_executions": stats["execs"], "documented_strings": 1}
        res["nontrivial"] = inst.name + f"|deviation-bound={data['bound']}"
        return res
    res["extra"] = {"impl_executions": stats["execs"], "impl_choice_points": stats["points"], "impl_exceptions": stats["exceptions"], "model_states": stats["model_states"], "model_transitions": stats["model_transitions"]}
    return res
