"""C19 - ensemble probability of linear directed chains equals generation probability.

Molecules with 1-3 linear <,> homopolymer blocks, prefix start and end-group start, six families x parameter regions:
ALL chain-length tuples with non-negligible reference probability are queried through the real get_ensemble_prob, each in
ALL rooted writings of its SMILES (every atom as root) instead of random renumberings, plus non-members.  Reference:
P(n_1..n_k) = start probability x product over blocks of the law's mass between the cumulative block masses before and
after the last unit - the law of the generator (C09 binds the generator to the same reference on the same family of
instances).
"""
import itertools
import math

from ..common import new_result, run_limited, viol
from .c11 import Ref, dist_text

ANCHORS = ["src/gbigsmiles/mol_prob.py", "src/gbigsmiles/distribution.py"]
LEVEL_RULE = (
    "instance x every chain-length tuple above the probability cut-off x every rooted SMILES writing: state = one queried molecule, transition = one writing, "
    "trace = one real get_ensemble_prob call compared with the reference product formula; non-trivial = distinct (instance, lengths)"
)
ASSUMPTIONS = [
    "reference block-size law: n units iff (n-1)*m <= t < n*m (n = 1 also for t < 0), the generator's stop rule (C07) with the documented law (C09, C11)",
    "chain-length tuples with reference probability below the cut-off are not queried; their total mass is added to the tolerance of the sum-to-one check",
]
BOUNDS = {"quick": "14 instances, lengths with p > 1e-4 (at most 14 per block), all rooted writings for molecules up to 16 atoms", "thorough": "40 instances, p > 1e-6"}
CASE_TIMEOUT = {"quick": 1500, "thorough": 6000}

UNIT = {"CC": ("[<]CC[>]", "CC"), "CO": ("[<]CO[>]", "CO"), "CS": ("[<]CS[>]", "CS"), "CCl": ("[<]C(Cl)C[>]", "C(Cl)C"), "CN": ("[<]C(N)C[>]", "C(N)C"), "CF2": ("[<]C(F)(F)[>]", "C(F)(F)"), "O": ("[<]O[>]", "O"),
        # isotope-labelled heavy atom (the generator weighs the real molecule, labels included)
        "C13": ("[<]C(N)[13CH2][>]", "C(N)[13CH2]"),
        # a side group that looks like the beginning of the next unit (a second, dead-end placement at the growing end)
        "CEt": ("[<]C(CC)(N)C[>]", "C(CC)(N)C"),
        # explicit weights on the growing-end descriptor / a weight other than 1 (hand-over between adjacent blocks)
        "CNw": ("[<]C(N)C[>|2|]", "C(N)C"), "COw": ("[<]C(=O)C[>|3|]", "C(=O)C")}


def instances(tier):
    out = []
    single = [
        ("uniform", (20, 120)), ("gauss", (70.0, 20.0)), ("poisson", (60.0,)), ("log_normal", (60.0, 1.2)), ("flory_schulz", (0.05,)), ("schulz_zimm", (80.0, 60.0)),
        ("gauss", (20.0, 30.0)),
    ]
    if tier == "thorough":
        single += [("uniform", (0, 60)), ("gauss", (150.0, 10.0)), ("poisson", (20.0,)), ("log_normal", (100.0, 1.6)), ("flory_schulz", (0.1,)), ("schulz_zimm", (150.0, 120.0)), ("uniform", (100, 101))]
    for fam, par in single:
        out.append({"start": ("prefix", "N"), "blocks": [("CC", fam, par)], "suffix": "F"})
    # end-group start (left terminal empty): start probability and no mass counted for the start group
    out.append({"start": ("end", [("N", 1.0), ("F", 1.0)]), "blocks": [("CC", "uniform", (20, 120))], "suffix": None})
    out.append({"start": ("end", [("N", 3.0), ("Br", 1.0)]), "blocks": [("CC", "gauss", (70.0, 20.0))], "suffix": None})
    out.append({"start": ("end", [("I", 1.0), ("F", 1.0)]), "blocks": [("CC", "uniform", (20, 120))], "suffix": None})
    # two and three blocks
    out.append({"start": ("prefix", "N"), "blocks": [("CC", "uniform", (20, 90)), ("CO", "uniform", (20, 90))], "suffix": "F"})
    out.append({"start": ("prefix", "N"), "blocks": [("CC", "gauss", (50.0, 15.0)), ("CO", "poisson", (50.0,))], "suffix": "F"})
    out.append({"start": ("prefix", "N"), "blocks": [("CC", "uniform", (20, 60)), ("CO", "uniform", (20, 60)), ("CS", "uniform", (30, 80))], "suffix": "F"})
    out.append({"start": ("prefix", "N"), "blocks": [("CC", "uniform", (20, 120))], "suffix": "Cl", "connector": None})
    # consecutive blocks built from the SAME repeat unit: one molecule has several splits between the blocks
    out.append({"start": ("prefix", "N"), "blocks": [("CC", "uniform", (20, 90)), ("CC", "uniform", (20, 90))], "suffix": "F"})
    out.append({"start": ("prefix", "CC"), "blocks": [("CN", "uniform", (60, 220)), ("CN", "flory_schulz", (0.02,))], "suffix": "[Si]"})
    # both descriptors on ONE atom (single backbone atom)
    out.append({"start": ("prefix", "N"), "blocks": [("CF2", "uniform", (60, 260))], "suffix": "Cl"})
    out.append({"start": ("prefix", "C"), "blocks": [("O", "poisson", (40.0,))], "suffix": "C"})
    out.append({"start": ("prefix", "N"), "blocks": [("CC", "uniform", (20, 90)), ("O", "uniform", (10, 60))], "suffix": "C"})
    # two blocks of the SAME family with different parameters (and the same unit mass: equal cumulative masses)
    out.append({"start": ("prefix", "CC"), "blocks": [("CC", "log_normal", (80.0, 1.2)), ("CC", "log_normal", (50.0, 1.4))], "suffix": "Cl"})
    out.append({"start": ("prefix", "CC"), "blocks": [("CC", "gauss", (60.0, 15.0)), ("CC", "gauss", (90.0, 25.0))], "suffix": "Cl"})
    out.append({"start": ("prefix", "CC"), "blocks": [("CO", "flory_schulz", (0.05,)), ("CO", "flory_schulz", (0.02,))], "suffix": "Cl"})
    # isotope-labelled unit; laws whose mass sits below one unit (every chain has one unit; a molecule WITHOUT the block is
    # outside the ensemble)
    out.append({"start": ("prefix", "OCC"), "blocks": [("C13", "uniform", (0, 300))], "suffix": "[Si]"})
    out.append({"start": ("prefix", "OCC"), "blocks": [("CN", "poisson", (3.0,))], "suffix": "[Si]"})
    out.append({"start": ("prefix", "OCC"), "blocks": [("CEt", "uniform", (0, 300))], "suffix": "[Si]"})
    out.append({"start": ("prefix", "OCC"), "blocks": [("CNw", "uniform", (0, 200)), ("COw", "gauss", (100.0, 30.0))], "suffix": "F"})
    out.append({"start": ("prefix", "OCC"), "blocks": [("CN", "uniform", (0, 200)), ("CO", "poisson", (3.0,))], "suffix": "[Si]"})
    # integer-valued laws with unit masses whose cumulative values have fractional parts below and above one half
    out.append({"start": ("prefix", "N"), "blocks": [("CCl", "flory_schulz", (0.01,))], "suffix": "F"})
    out.append({"start": ("prefix", "N"), "blocks": [("CCl", "poisson", (200.0,))], "suffix": "F"})
    out.append({"start": ("prefix", "N"), "blocks": [("CCl", "schulz_zimm", (300.0, 200.0))], "suffix": "F"})
    if tier == "thorough":
        out.append({"start": ("prefix", "N"), "blocks": [("CC", "log_normal", (60.0, 1.2)), ("CO", "flory_schulz", (0.05,))], "suffix": "F"})
        out.append({"start": ("end", [("N", 1.0), ("F", 2.0)]), "blocks": [("CC", "uniform", (20, 90)), ("CO", "uniform", (20, 90))], "suffix": None})
    return out


def spec_of(inst):
    from .. import refsem as R

    kind, val = inst["start"]
    nb = len(inst["blocks"])
    els = []
    if kind == "prefix":
        els.append(R.tok(val))
    for bi, (u, fam, par) in enumerate(inst["blocks"]):
        left, right = "[>]", "[<]"
        ends = []
        if bi == 0 and kind == "end":
            left = "[]"
            ends += [(f"[>|{w}|]{g}" if w != 1.0 else f"[>]{g}") for g, w in val]
        if bi == nb - 1 and inst.get("suffix") is None:
            right = "[]"
            ends.append("[<]O")
        els.append(R.sto(left, [UNIT[u][0]], ends, right, dist_text(fam, par)))
    if inst.get("suffix"):
        els.append(R.tok(inst["suffix"]))
    return {"elements": els, "mixture": None}


def text_of(inst):
    from .. import refsem as R

    return R.print_spec(spec_of(inst))


def block_probs(fam, par, m, cut):
    """reference P(n units) for n = 1, 2, ... until the tail is below cut"""
    r = Ref(fam, tuple(par))

    sz_cache = {}

    def Fminus(x):
        # P(t < x)
        if fam == "schulz_zimm":
            # the documented density evaluated on integer masses (the law the generator draws from); its missing
            # normalisation is C11's finding
            k = math.ceil(x) - 1
            if k not in sz_cache:
                sz_cache[k] = sum(r.point(j) for j in range(0, k + 1)) if k >= 0 else 0.0
            return sz_cache[k]
        if r.discrete:
            return r.cdf(math.ceil(x) - 1)
        return r.cdf(x)

    out = {}
    n = 1
    acc = 0.0
    while n < 200:
        p = Fminus(n * m) - (Fminus((n - 1) * m) if n > 1 else 0.0)
        if p > cut:
            out[n] = p
        acc += p
        if acc > 1 - cut and p <= cut:
            break
        n += 1
    return out, 1.0 - sum(out.values())


def smiles_of(inst, lengths, start_group=None):
    kind, val = inst["start"]
    s = val if kind == "prefix" else start_group
    for (u, fam, par), n in zip(inst["blocks"], lengths):
        s += UNIT[u][1] * n
    s += inst["suffix"] if inst.get("suffix") else "O"
    return s


def enumerate_cases(tier, seed):
    for i, inst in enumerate(instances(tier)):
        yield ("instance", {"inst": inst, "tier": tier, "idx": i})


def eval_case(kind, data):
    import gbigsmiles
    from gbigsmiles.mol_prob import get_ensemble_prob
    from rdkit import Chem

    from ..refsem import token_ref

    res = new_result()
    inst = data["inst"]
    inst["start"] = tuple(inst["start"])
    inst["blocks"] = [tuple(b) for b in inst["blocks"]]
    tier = data["tier"]
    cut = 1e-4 if tier == "quick" else 1e-6
    maxlen = 14 if tier == "quick" else 30
    text = text_of(inst)
    mol = gbigsmiles.Molecule(text)
    if not mol.generable:
        viol(res, "C19|instance-not-generable", f"{text}", {"text": text})
        return res
    masses = [token_ref(UNIT[u][0]).mass for (u, f, p) in inst["blocks"]]
    same_units = len({u for (u, f_, p_) in inst["blocks"]}) < len(inst["blocks"])
    per_block = []
    per_block_alt = []  # the same law with the first unit's interval taken from mass 0 (diagnosis of the known finding)
    ref_cut = 1e-10 if same_units else cut  # a molecule of same-unit blocks sums over ALL its splits: keep the small ones
    for (u, fam, par), m in zip(inst["blocks"], masses):
        pb, rest = block_probs(fam, par, m, ref_cut)
        per_block.append(pb)
        r_ = Ref(fam, tuple(par))
        below = r_.cdf(0.0)  # P(draw <= 0): negative draws of continuous laws, the point mass at 0 of integer-valued laws
        per_block_alt.append({n: (p - below if n == 1 else p) for n, p in pb.items()})
    from .. import refsem as R

    kind_, val = inst["start"]
    shape = ("end-group-start" if kind_ == "end" else "prefix-start") + f"|blocks={len(inst['blocks'])}"
    nspec = R.normalize(spec_of(inst))
    # reference distribution over molecules: product of block-size probabilities x the generation model's start / capping picks
    ref = {}
    ref_alt = {}
    info = {}
    for lengths in itertools.product(*[sorted(pb) for pb in per_block]):
        w = 1.0
        wa = 1.0
        for pb, pa, n in zip(per_block, per_block_alt, lengths):
            w *= pb[n]
            wa *= max(pa[n], 0.0)
        if w < (1e-10 if same_units else cut * 0.1) and len(lengths) > 1:
            continue
        targets = [(n - 0.5) * m for n, m in zip(lengths, masses)]
        gm = R.GenModel(nspec, targets, max_steps=400)
        out = gm.run()
        res["extra"]["model_states"] = res["extra"].get("model_states", 0) + gm.states
        for c, (p, st_) in out.items():
            smi = R.plain_smiles_of_labelled(c)
            ref[smi] = ref.get(smi, 0.0) + w * p
            ref_alt[smi] = ref_alt.get(smi, 0.0) + wa * p
            if smi not in info or w * p > info[smi][1]:
                info[smi] = (lengths, w * p)
    info = {k: v[0] for k, v in info.items()}
    total_reported = 0.0
    total_ref = 0.0
    nq = 0
    flagged = 0
    fams = "+".join(f for (u, f, p) in inst["blocks"])
    # the reference sums over ALL splits of a molecule between blocks (no length cap); only molecules up to the tier's size are queried
    for smi in sorted(ref, key=lambda x: (len(x), x)):
        pref = ref[smi]
        lengths = info[smi]
        if sum(lengths) > maxlen or pref < cut * 0.1:
            continue
        m = Chem.MolFromSmiles(smi)
        if m is None:
            continue
        res["states"] += 1
        nq += 1
        writings = [smi]
        if m.GetNumAtoms() <= 16:
            for a in range(m.GetNumAtoms()):
                w = Chem.MolToSmiles(m, rootedAtAtom=a, canonical=False)
                if w not in writings:
                    writings.append(w)
        vals = []
        for w in writings:
            st, out = run_limited(lambda: get_ensemble_prob(w, mol), (), 120)
            res["transitions"] += 1
            res["traces"] += 1
            if st != "ok":
                viol(res, f"C19|query-fails|{shape}|{str(out).split('(')[0] if st == 'exc' else st}", f"{text}: get_ensemble_prob({w!r}) {st}: {out}", {"text": text, "smiles": w})
                vals = None
                break
            p = out[0] if isinstance(out, tuple) else out
            vals.append(float(p))
        if not vals:
            continue
        if max(vals) - min(vals) > 1e-9 * max(1.0, max(vals)):
            pos = sorted({round(v, 12) for v in vals if v > 0})
            cls = "some-writings-give-zero" if min(vals) == 0.0 and len(pos) == 1 else "other"
            if pos and all(abs(v / pos[0] - round(v / pos[0])) < 1e-9 for v in pos) and inst.get("suffix") and kind_ == "prefix" and Chem.CanonSmiles(inst["suffix"]) == Chem.CanonSmiles(val):
                cls = "palindromic-molecule-counted-per-matching-end"
            viol(res, f"C19|depends-on-atom-order|{cls}", f"{text}: {smi}: its {len(writings)} rooted writings are reported between {min(vals)} and {max(vals)}", {"text": text, "smiles": smi})
            flagged += 1
        rep = max(vals)  # the value of the writings the search handles; order dependence is judged above
        total_reported += rep
        total_ref += pref
        if abs(rep - pref) > 1e-6 + 1e-6 * pref:
            flagged += 1
            cls = f"{shape}|{fams}|{'first-block-one-unit' if lengths[0] == 1 else 'longer'}"
            if kind_ == "end":
                cls = "end-group-start"
            elif kind_ == "prefix" and inst.get("suffix") and Chem.CanonSmiles(inst["suffix"]) == Chem.CanonSmiles(val) and abs(rep - 2 * pref) < 1e-7 + 1e-6 * pref:
                # prefix and suffix are the same fragment: the search starts from both ends and adds both matches
                cls = "palindromic-molecule-counted-per-matching-end"
            elif abs(rep - ref_alt.get(smi, -1.0)) < 1e-7 + 1e-6 * pref:
                # the report misses exactly the mass of draws below zero (every block's first interval is taken from 0)
                cls = "first-unit-interval-starts-at-zero"
            viol(
                res,
                f"C19|wrong-probability|{cls}",
                f"{text}: molecule {smi} (block lengths {lengths}) reported {rep:.9f}, generation produces it with probability {pref:.9f}",
                {"text": text, "smiles": smi, "lengths": list(lengths)},
            )
    # sum over the ensemble
    if nq and not flagged and abs(total_reported - total_ref) > 1e-6 * nq + 1e-9:
        viol(res, f"C19|ensemble-sum|{shape}", f"{text}: reported probabilities of the {nq} queried members sum to {total_reported:.6f}, the generator's to {total_ref:.6f}", {"text": text})
    # non members
    base = smiles_of(inst, [2] * len(inst["blocks"]), None if kind_ == "prefix" else val[0][0])
    bads = [base.replace("F", "Br", 1) if "F" in base else base + "Br", "C" + base, base[: len(base) // 2] + "(C)" + base[len(base) // 2 :], "c1ccccc1", base + "." + base]
    # molecules that lack one block entirely (every object contributes at least one unit, so they are outside the ensemble)
    blockless = {}
    for bi in range(len(inst["blocks"])):
        ls = [2] * len(inst["blocks"])
        ls[bi] = 0
        bads.append(smiles_of(inst, ls, None if kind_ == "prefix" else val[0][0]))
        blockless[bads[-1]] = bi
    for bad in bads:
        if Chem.MolFromSmiles(bad) is None:
            continue
        res["states"] += 1
        st, out = run_limited(lambda: get_ensemble_prob(bad, mol), (), 120)
        res["transitions"] += 1
        res["traces"] += 1
        if st == "ok":
            p = out[0] if isinstance(out, tuple) else out
            # is it really a non member? only claim when no queried member has the same canonical SMILES
            if float(p) > 1e-12 and Chem.CanonSmiles(bad) not in {Chem.CanonSmiles(x) for x in ref} and not is_member(inst, bad):
                if bad in blockless:
                    viol(res, f"C19|non-member-positive|molecule-without-any-unit-of-block-{blockless[bad] + 1}|{shape}", f"{text}: {bad} contains no unit of stochastic object {blockless[bad] + 1} (every object contributes at least one), yet it has probability {p}", {"text": text, "smiles": bad})
                else:
                    viol(res, f"C19|non-member-positive|{shape}", f"{text}: {bad} is not in the ensemble but has probability {p}", {"text": text, "smiles": bad})
    res["evals"] = res["traces"]
    res["nontrivial"] = [text, nq]
    res["outcomes"] = [f"{shape}:{nq}"]
    res["sample"] = {"molecule": text, "queried_members": nq, "sum_reported": round(total_reported, 6), "sum_reference": round(total_ref, 6)}
    return res


def is_member(inst, smi):
    from rdkit import Chem

    can = Chem.CanonSmiles(smi)
    kind_, val = inst["start"]
    groups = [None] if kind_ == "prefix" else [g for g, w in val]
    for sg in groups:
        for lengths in itertools.product(range(1, 8), repeat=len(inst["blocks"])):
            try:
                if Chem.CanonSmiles(smiles_of(inst, lengths, sg)) == can:
                    return True
            except Exception:  # noqa
                pass
    return False
