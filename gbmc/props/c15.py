"""C15 - ill-formed notation and misuse are rejected, never silently reinterpreted; parsing terminates.

Every valid instance of the archetype families (and a token / object library) x every breaking operator applied at EVERY
applicable position (not a sampled one).  Oracle per mutated string: the constructor raises, or generation raises; never a
molecule.  Termination: every single-character deletion / insertion (24 special characters) / substitution at every
position of every base string, each parse under an alarm and an address-space limit.
"""
import re

from .. import refsem as R
from ..common import new_result, run_limited, viol

ANCHORS = ["src/gbigsmiles/bond.py", "src/gbigsmiles/token.py", "src/gbigsmiles/stochastic.py", "src/gbigsmiles/molecule.py", "src/gbigsmiles/mixture.py", "src/gbigsmiles/system.py", "src/gbigsmiles/core.py", "src/gbigsmiles/mol_gen.py", "src/gbigsmiles/distribution.py", "src/gbigsmiles/atom.py"]
LEVEL_RULE = (
    "valid instance x breaking operator x every applicable position; state = one mutated string, transition = constructor / generate call, "
    "trace = one mutated string taken through the real constructor and generator; non-trivial = distinct mutated strings; "
    "termination: all single-character edits of every base string, each parse sandboxed"
)
ASSUMPTIONS = ["any exception type counts as rejection", "a parse that needs more than 3 s or 4 GB counts as non-terminating"]
BOUNDS = {"quick": "archetype families (quick) + object library; byte-level edits on 25 base strings", "thorough": "archetype families (thorough) + corpus; byte-level edits on all base strings"}
CASE_TIMEOUT = {"quick": 600, "thorough": 3000}
SPECIALS = list("[]{}()|.,;$<>%=#-+:/\\@") + [" ", "0"]


def outside_ext(s):
    """indices of characters outside |...| segments"""
    idx = []
    inside = False
    for i, ch in enumerate(s):
        if ch == "|":
            inside = not inside
            continue
        if not inside:
            idx.append(i)
    return idx


def mutations(s):
    """(operator, position, mutated string) for a valid molecule-level string s"""
    out = []
    oe = set(outside_ext(s))
    for i, ch in enumerate(s):
        if i in oe and ch in "()":
            out.append(("unbalanced-branch", i, s[:i] + s[i + 1 :]))
        if i in oe and ch in "[]":
            out.append(("unbalanced-bracket", i, s[:i] + s[i + 1 :]))
        if i in oe and ch in "{}":
            out.append(("unbalanced-brace", i, s[:i] + s[i + 1 :]))
    # descriptor between two chain atoms
    # a position where an atom has just ended (letter, bracket atom, ring digit, closed branch) and another atom starts
    for m in re.finditer(r"(?<=[A-Za-z0-9\])])(?=[A-Za-z]|\[(?![$<>\]]))", s):
        i = m.start()
        if i not in oe and i - 1 not in oe:
            continue
        before = s[:i]
        if before.count("{") == before.count("}") and "{" in s:
            pass  # inside a prefix / suffix token: equally ill-formed
        # skip positions inside a two-letter atom or a bracket atom
        if (i < len(s) and s[i - 1 : i + 1] in ("Cl", "Br", "Si", "Na")) or before.count("[") != before.count("]"):
            continue
        if s[i - 1] == "]" and R.DESC_RE.search(before[-14:]) and R.DESC_RE.search(before[-14:]).end() == len(before[-14:]):
            continue  # directly after a descriptor: would be two adjacent descriptors, another rule
        for ins in ("[$]", "[<]"):
            out.append(("descriptor-between-atoms", i, s[:i] + ins + s[i:]))
    # unknown descriptor symbol
    for m in R.DESC_RE.finditer(s):
        j = m.start() + 1
        while s[j] == " ":
            j += 1
        for sym in "&%":
            out.append(("unknown-symbol", j, s[:j] + sym + s[j + 1 :]))
    # unknown distribution name
    for m in re.finditer(r"\|(gauss|uniform|schulz_zimm|log_normal|poisson|flory_schulz)\(", s):
        a, b = m.start(1), m.end(1)
        name = m.group(1)
        for k in range(len(name)):
            out.append(("unknown-distribution", a + k, s[: a + k] + "x" + s[a + k + 1 :]))
            if k < 3:
                out.append(("unknown-distribution", a + k, s[: a + k] + s[a + k + 1 :]))
    # transition list length +-1
    for m in re.finditer(r"\|((?:[0-9.e+-]+ )+[0-9.e+-]+)\|\]", s):
        if s[: m.start()].count("{") == s[: m.start()].count("}"):
            continue  # a list on a prefix / connector / suffix token does not belong to a stochastic object
        lst = m.group(1).split()
        out.append(("transition-length", m.start(1), s[: m.start(1)] + " ".join(lst + ["1"]) + s[m.end(1) :]))
        if len(lst) > 2:
            out.append(("transition-length", m.start(1), s[: m.start(1)] + " ".join(lst[:-1]) + s[m.end(1) :]))
    # a transition list of the wrong length written on ANY descriptor of an object (repeat units, end groups, terminals)
    for om in re.finditer(r"\{[^{}]*\}", s):
        span = om.group(0)
        ds = list(R.DESC_RE.finditer(span))
        nd = len(ds) - 2 + (1 if span.startswith("{[]") else 0) + (1 if span.endswith("[]}") else 0)
        if nd < 1:
            continue
        for m in ds:
            core = m.group(0)
            base = core[: core.index("|")] if "|" in core else core[:-1]
            for ln in (nd + 1, max(2, nd - 1)):
                if ln == nd:
                    continue
                lst = " ".join(["1"] * ln)
                a0 = om.start() + m.start()
                out.append(("transition-length", a0, s[:a0] + base + "|" + lst + "|]" + s[om.start() + m.end() :]))
    # negative weight on each descriptor
    for m in R.DESC_RE.finditer(s):
        core = m.group(0)
        base = core[: core.index("|")] if "|" in core else core[:-1]
        out.append(("negative-weight", m.start(), s[: m.start()] + base + "|-1|]" + s[m.end() :]))
        out.append(("negative-weight", m.start(), s[: m.start()] + base + "|-0.5|]" + s[m.end() :]))
    return out


def system_mutations(s):
    out = []
    out.append(("text-after-mixture", len(s), s + ".|500|CC"))
    out.append(("text-after-mixture", len(s), s + ".|50%|N"))
    out.append(("text-after-mixture", len(s), s + ".|500|CCO.|200|"))
    out.append(("text-after-mixture", len(s), s + ".|500|{[][$]CC[$]; [$][H][]}|gauss(50, 5)|"))
    out.append(("text-after-mixture", len(s), s + ".|1e3|C|"))
    for bad in ["-1%", "101%", "100.5%", "-5", "-0.1%"]:
        out.append(("percent-out-of-range", len(s), s + ".|" + bad + "|"))
    return out


def bases(tier, seed):
    from ..instances import UNITS_DIR, UNITS_SYM, families, mass

    out = []
    seen = set()
    # every unit of the token library inside a small homopolymer (all tiers)
    for u in UNITS_DIR + ["[<]CC([>])C(=O)OCC", "[<]C(C[>])(c1ccccc1)", "[<]CC([<|0|])C(=O)OC[>]", "[<]=CC(=[>])CO"]:
        t = f"N{{[>]{u}[<]}}|gauss({round(1.5 * mass(u), 2)}, 0)|F"
        if "=" in u.split("]")[0] + u[u.rfind("[") - 1 :]:
            continue
        seen.add(t)
        out.append(t)
    for u in UNITS_SYM + ["[$]CC([$])C(=O)OC", "[$]C([$])(C#N)CC"]:
        e = "; [$][H]" if u.count("[$") > 2 else ""
        t = f"N{{[$]{u}{e}[$]}}|gauss({round(1.5 * mass(u), 2)}, 0)|F"
        seen.add(t)
        out.append(t)
    for inst in families(tier, seed):
        if inst.text not in seen:
            seen.add(inst.text)
            out.append(inst.text)
    return out


def enumerate_cases(tier, seed):
    bs = bases(tier, seed)
    step = 6
    for lo in range(0, len(bs), step):
        yield ("operators", {"bases": bs[lo : lo + step]})
    yield ("misuse", {"bases": bs})
    # a system one of whose components is not generable: generating from it is misuse on every random path
    from . import c13

    for k_, d_ in c13.enumerate_cases(tier, seed):
        if k_ == "refusal-component":
            yield ("sys-component", d_)
    from .c01 import corpus

    term = list(bs)
    if tier == "thorough":
        term += [c for c in corpus() if len(c) < 400]
    else:
        term = term[::4] + [c for c in corpus() if len(c) < 150][:10]
    # long numeric fields (high-precision weights, transition lists, parameters, masses): a corrupted byte behind a long run
    # of digits is where a backtracking pattern explodes
    term += ["N{[>][<|0.3333333333333333333333333333333333333|]CC[>], [<|0.6666666666666666666666666666666666667|]CO[>][<]}|gauss(40, 0)|F",
             "N{[>][<]CC[>|0.12345678901234567890123 0.23456789012345678901234 0.0000000000000000000000 1e-30|], [<]CO[>][<]}|gauss(40, 0)|F",
             "N{[>][<]CC[>][<]}|gauss(40.000000000000000000000000000001, 0.00000000000000000000000000000)|F.|33.333333333333333333333333333333333333%|"]
    term += ["CC.|50%|N{[>][<]CC[>][<]}|gauss(40, 0)|F.|500|", "CCO.|300|", "{[][$]CC[$]; [$][H][]}|flory_schulz(0.1)|.|10%|C.|1e3|"]
    step = 3 if tier == "quick" else 4
    for lo in range(0, len(term), step):
        yield ("termination", {"bases": term[lo : lo + step]})


def attempt(text, level="mol", gen=True):
    """returns ('raises-ctor'|'raises-generate'|'not-generable-raises'|'molecule'|'timeout'|'memory', detail)"""
    import gbigsmiles
    import numpy as np

    def build():
        return gbigsmiles.Molecule(text) if level == "mol" else gbigsmiles.System(text)

    st, o = run_limited(build, (), 5)
    if st == "timeout":
        return "timeout", "constructor"
    if st == "memory":
        return "memory", "constructor"
    if st != "ok":
        return "raises-ctor", o
    if not gen:
        return "object", str(o)

    def g():
        return o.generate(rng=np.random.default_rng(3)).smiles

    st2, smi = run_limited(g, (), 20)
    if st2 == "timeout":
        return "timeout", "generate"
    if st2 == "memory":
        return "memory", "generate"
    if st2 != "ok":
        return "raises-generate", smi
    return "molecule", smi


def eval_case(kind, data):
    import gbigsmiles

    res = new_result()
    ops = set()
    if kind == "sys-component":
        from . import c13

        r13 = c13.eval_refusal_component(new_result(), data)
        for v in r13["viol"]:
            viol(res, v["key"].replace("C13|", "C15|"), v["what"], v["detail"])
        st_, sysobj = run_limited(lambda: gbigsmiles.System(data["text"], data["ext"]), (), 20)
        if st_ == "ok":
            try:
                if bool(sysobj.generable):
                    viol(res, "C15|system-with-non-generable-component-reports-generable", f"System({data['text']!r}, {data['ext']}).generable is True although the component {data['bad']!r} is not generable", {"text": data["text"]})
            except Exception:  # noqa
                pass
        for k_ in ("states", "transitions", "traces"):
            res[k_] = r13[k_]
        res["evals"] = r13["traces"]
        res["nontrivial"] = ["sys-component", data["text"]]
        res["sample"] = r13["sample"]
        res["outcomes"] = r13["outcomes"]
        return res
    if kind == "operators":
        for b in data["bases"]:
            got, det = attempt(b)
            if got != "molecule":
                res["extra"]["bases_not_generating"] = res["extra"].get("bases_not_generating", 0) + 1
                continue
            muts = mutations(b) + [(o, p, m) for (o, p, m) in system_mutations(b)]
            seen = set()
            for op, pos, m in muts:
                if m in seen or m == b:
                    continue
                seen.add(m)
                res["states"] += 1
                res["traces"] += 1
                res["transitions"] += 2
                got, det = attempt(m)
                ops.add(f"{op}:{got}")
                if got in ("timeout", "memory"):
                    viol(res, f"C15|non-termination|{op}", f"{m!r} ({op} at {pos} of {b!r}): {got} in {det}", {"text": m})
                elif got == "molecule":
                    viol(res, f"C15|accepted|{op}", f"{m!r} ({op} at position {pos} of {b!r}) is accepted and generates {det}", {"text": m, "base": b, "op": op})
    elif kind == "misuse":
        import numpy as np

        for b in data["bases"]:
            # generating something that is not generable: strip every distribution
            nod = re.sub(r"\}\|[^|]*\|", "}", b)
            if nod != b:
                res["states"] += 1
                res["traces"] += 1
                res["transitions"] += 2
                got, det = attempt(nod)
                ops.add(f"no-distribution:{got}")
                if got == "molecule":
                    viol(res, "C15|accepted|generate-without-distribution", f"{nod!r} has no distribution but generates {det}", {"text": nod})
                elif got in ("timeout", "memory"):
                    viol(res, "C15|non-termination|generate-without-distribution", f"{nod!r}: {got}", {"text": nod})
            # missing prefix for a non-empty left terminal
            m = re.match(r"^([^{}]+)(\{\[[$<>].*)$", b)
            if m:
                for variant, name in ((m.group(2), "missing-prefix"),):
                    res["states"] += 1
                    res["traces"] += 1
                    res["transitions"] += 2
                    got, det = attempt(variant)
                    ops.add(f"{name}:{got}")
                    if got == "molecule":
                        viol(res, f"C15|accepted|{name}", f"{variant!r}: no prefix although the left terminal is not empty, generates {det}", {"text": variant})
                # prefix whose open descriptor differs from the left terminal
                lt = re.match(r"\{(\[[$<>]\d*)", m.group(2)).group(1)
                for wrong in ["[$7|0|]", "[<7|0|]", "[>]" if not lt.startswith("[>") else "[<]", "[$]" if not lt.startswith("[$") else "[>]"]:
                    if R.parse_desc(wrong).plain() == lt + "]":
                        continue
                    variant = m.group(1) + wrong + m.group(2)
                    if R.DESC_RE.search(m.group(1)):
                        continue
                    res["states"] += 1
                    res["traces"] += 1
                    res["transitions"] += 2
                    got, det = attempt(variant)
                    ops.add(f"prefix-mismatch:{got}")
                    if got == "molecule":
                        viol(res, "C15|accepted|prefix-mismatch", f"{variant!r}: prefix descriptor {wrong} differs from the left terminal, generates {det}", {"text": variant})
            # an object whose left terminal is EMPTY starts from its own end group: a prefix handed to it (its open descriptor
            # differs from the empty terminal) is misuse, not something to drop silently
            m0 = re.match(r"^(\{\[\][^{}]*\}\|[^|]*\|)(.*)$", b)
            if m0:
                for pre in ("OCC[$]", "N[>]", "CC[<|0|]"):
                    variant = pre + b
                    res["states"] += 1
                    res["traces"] += 1
                    res["transitions"] += 2
                    got, det = attempt(variant)
                    ops.add(f"prefix-before-empty-terminal:{got}")
                    if got == "molecule":
                        viol(res, "C15|accepted|prefix-before-empty-left-terminal", f"{variant!r}: the prefix {pre!r} stands in front of an object whose left terminal is empty, yet {det} is generated", {"text": variant})
            # negative weight: not generable
            for mm in list(R.DESC_RE.finditer(b))[:6]:
                core = mm.group(0)
                base = core[: core.index("|")] if "|" in core else core[:-1]
                neg = b[: mm.start()] + base + "|-2|]" + b[mm.end() :]
                st, o = run_limited(lambda: gbigsmiles.Molecule(neg), (), 5)
                res["states"] += 1
                res["traces"] += 1
                res["transitions"] += 1
                if st == "ok":
                    try:
                        gable = o.generable
                    except Exception:  # noqa
                        gable = False
                    ops.add(f"negative-generable:{gable}")
                    if gable:
                        viol(res, "C15|negative-weight-generable", f"{neg!r} reports generable", {"text": neg})
                    # history: the VALID twin generates first (whatever it leaves behind), then every entry point is tried
                    # on the negative-weight twin: molecule generation and the direct construction of a MolGen from a token
                    run_limited(lambda: gbigsmiles.Molecule(b).generate(rng=np.random.default_rng(2)).smiles, (), 20)
                    got, det = attempt(neg)
                    res["transitions"] += 2
                    ops.add(f"negative-after-valid:{got}")
                    if got == "molecule":
                        viol(res, "C15|accepted|negative-weight-generates-after-valid-twin", f"{neg!r} generates {det} after its valid twin {b!r} had generated", {"text": neg, "base": b})
                    toks = []
                    for el in o.elements:
                        toks += list(getattr(el, "repeat_tokens", [])) + list(getattr(el, "end_tokens", [])) + ([el] if isinstance(el, gbigsmiles.SmilesToken) else [])
                    for tk in toks:
                        if any(float(bd.weight) < 0 for bd in tk.bond_descriptors):
                            from gbigsmiles.mol_gen import MolGen

                            stt, mg_ = run_limited(lambda: MolGen(tk), (), 20)
                            res["transitions"] += 1
                            ops.add(f"molgen-negative:{stt}")
                            if stt == "ok":
                                viol(res, "C15|accepted|molgen-from-negative-weight-token", f"MolGen(token {str(tk)!r}) is built although the token is not generable (after the valid twin {b!r} had generated)", {"text": neg, "base": b})
        # element-level misuse, also on mirrored molecules (history: parse -> mirror -> generate an element)
        for b in data["bases"]:
            try:
                mol0 = gbigsmiles.Molecule(b)
                variants = [("parsed", mol0.elements)]
                mir = mol0.gen_mirror()
                if mir is not None:
                    variants.append(("mirrored", mir.elements))
            except Exception:  # noqa
                continue
            for vname, els in variants:
                for el in els:
                    if not isinstance(el, gbigsmiles.Stochastic):
                        continue
                    lt = el.left_terminal.generate_string(False)
                    res["states"] += 1
                    res["traces"] += 1
                    res["transitions"] += 1
                    if lt != "[]":
                        st, o = run_limited(lambda: el.generate(rng=np.random.default_rng(5)).smiles, (), 20)
                        ops.add(f"element-missing-prefix-{vname}:{st}")
                        if st == "ok":
                            viol(res, f"C15|accepted|element-missing-prefix|{vname}", f"{vname} stochastic element {str(el)!r} of {b!r} has left terminal {lt} but generates without a prefix: {o}", {"text": b, "variant": vname})
                        elif st in ("timeout", "memory"):
                            viol(res, f"C15|non-termination|element-missing-prefix|{vname}", f"{vname} element {str(el)!r}: {st}", {"text": b})
                        # a prefix whose open descriptor differs from the left terminal
                        wrong = "[$9]" if "$" not in lt else "[<9]"
                        try:
                            pre = gbigsmiles.SmilesToken("C" + wrong, 0, 0).generate(rng=np.random.default_rng(5))
                            st, o = run_limited(lambda: el.generate(prefix=pre, rng=np.random.default_rng(5)).smiles, (), 20)
                            ops.add(f"element-prefix-mismatch-{vname}:{st}")
                            if st == "ok":
                                viol(res, f"C15|accepted|element-prefix-mismatch|{vname}", f"{vname} element {str(el)!r} accepts a prefix with open descriptor {wrong}: {o}", {"text": b, "variant": vname})
                        except Exception:  # noqa
                            pass
        # direct API misuse
        for txt, lvl, name in [("C.|50%|CC.|50%|", "sys", "system-without-mass"), ("C.|100|CC", "sys", "system-underdetermined")]:
            got, det = attempt(txt, level=lvl)
            res["states"] += 1
            res["traces"] += 1
            ops.add(f"{name}:{got}")
            if got == "molecule":
                viol(res, f"C15|accepted|{name}", f"System({txt!r}).generate() returns {det}", {"text": txt})
    elif kind == "termination":
        for b in data["bases"]:
            lvl = "sys" if ".|" in b else "mol"
            edits = set()
            for i in range(len(b) + 1):
                if i < len(b):
                    edits.add(b[:i] + b[i + 1 :])
                for ch in SPECIALS:
                    edits.add(b[:i] + ch + b[i:])
                    if i < len(b):
                        edits.add(b[:i] + ch + b[i + 1 :])
            slow = 0
            for m in sorted(edits):
                res["states"] += 1
                res["traces"] += 1
                res["transitions"] += 1
                for level in ({"mol", lvl} | {"sys"}):
                    got, det = attempt(m, level=level, gen=False)
                    if got in ("timeout", "memory"):
                        viol(res, f"C15|non-termination|parse-{level}|{got}", f"parsing {m!r} as {level}: {got}", {"text": m, "level": level})
                        slow += 1
                if slow >= 2:
                    break  # every further edit of this base would cost its full time limit again; the verdict is in
            ops.add("termination")
    res["evals"] = res["traces"]
    res["outcomes"] = sorted(ops)
    res["nontrivial"] = [kind, data["bases"][0], res["traces"]] if res["traces"] else None
    res["sample"] = {"kind": kind, "base": data["bases"][0]}
    return res
