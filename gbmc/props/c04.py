"""C04 - only compatible, unused descriptors bond, with their bond order.
All choice sequences of every bounded instance are executed on the real generator; see gbmc/genexp.py."""
from . import _gen
from ._gen import ANCHORS, ASSUMPTIONS  # noqa

LEVEL_RULE = (
    "stateless exploration of the real Molecule.generate under a scripted random generator: every choice sequence of every "
    "bounded archetype instance is executed (states = choice points visited + reference-model states, transitions = answers "
    "taken + model transitions, traces = complete executions judged); non-trivial = distinct instances with at least one execution"
)
BOUNDS = {"quick": "8 documented full-size strings at deviation bound 1 (all of them at bound 2 in thorough); archetype families with core parameter slice, targets <= 3 units, <= 12000 executions per instance (none reaches it: complete choice trees)", "thorough": "full parameter domains, <= 60000 executions / 900 s per instance"}
CASE_TIMEOUT = {"quick": 900, "thorough": 3000}


def enumerate_cases(tier, seed):
    yield from _gen.cases(tier, seed)
    yield from _gen.corpus_cases(tier, seed)
    for k in range(len(PIECES)):
        yield ("attach", {"start": k, "depth": 3 if tier == "quick" else 4})


def eval_case(kind, data):
    if kind == "attach":
        from ..common import new_result

        return eval_attach(new_result(), data)
    return _gen.evaluate("C04", ("C04",), data)


# ---------------------------------------------------------------------------------------------------------------------
# Direct use of the attachment step (MolGen.attach_other): breadth-first search over operation sequences on real objects.
# A state is the growing molecule G plus a library of piece objects P_k that are REUSED as `other` (the call stores the
# result in G and must leave P_k as it was).  Reference model: molecules with labelled dummy atoms at their open
# descriptors; attaching = drop the two dummies and bond their neighbours with the prescribed order.

PIECES = ["[$]CC[$]", "[$]CCO", "C([$])[$]", "[<]CC[>]", "[>]N", "[$]=CC=[$]", "[<]C(F)[>]"]


def _ref_piece(text):
    """reference molecule with dummies: (RWMol, [dummy atom idx per open descriptor], [DescRef])"""
    from rdkit import Chem

    from ..refsem import token_ref

    tr = token_ref(text)
    return Chem.RWMol(tr.mol), list(tr.dummy_idx), list(tr.descs)


def _ref_attach(g, other, i, j):
    """g, other = (mol, dummies, descs); returns the combined reference state"""
    from rdkit import Chem

    gm, gd, gs = g
    om, od, os_ = other
    n = gm.GetNumAtoms()
    comb = Chem.RWMol(Chem.CombineMols(gm, om))
    a_d, b_d = gd[i], od[j] + n
    a = comb.GetAtomWithIdx(a_d).GetNeighbors()[0].GetIdx()
    b = comb.GetAtomWithIdx(b_d).GetNeighbors()[0].GetIdx()
    bt = comb.GetBondBetweenAtoms(a_d, a).GetBondType()
    comb.AddBond(a, b, bt)
    dummies = [x for k, x in enumerate(gd) if k != i] + [x + n for k, x in enumerate(od) if k != j]
    descs = [d for k, d in enumerate(gs) if k != i] + [d for k, d in enumerate(os_) if k != j]
    for idx in sorted([a_d, b_d], reverse=True):
        comb.RemoveAtom(idx)
        dummies = [x - 1 if x > idx else x for x in dummies]
    return comb, dummies, descs


def _canon_with_dummies(mol, dummy_labels):
    """canonical SMILES; dummy_labels: {atom idx: label int}"""
    from rdkit import Chem

    m = Chem.RWMol(mol)
    for a in m.GetAtoms():
        a.SetAtomMapNum(0)
        if a.GetAtomicNum() == 0:
            a.SetIsotope(dummy_labels.get(a.GetIdx(), 0))
    mm = m.GetMol()
    Chem.SanitizeMol(mm)
    return Chem.MolToSmiles(mm)


def _impl_canon(mg, label_of):
    """the implementation's molecule with a labelled dummy atom on the atom of every open descriptor"""
    from rdkit import Chem

    rw = Chem.RWMol(mg.mol)
    for a in rw.GetAtoms():
        a.SetAtomMapNum(0)
    labels = {}
    for bd in mg.bond_descriptors:
        d = rw.AddAtom(Chem.Atom(0))
        rw.AddBond(int(bd.atom_bonding_to), d, Chem.BondType(int(bd.bond_type)))
        labels[d] = label_of(bd.generate_string(True))
    return _canon_with_dummies(rw, labels)


def eval_attach(res, data):
    import gbigsmiles
    from gbigsmiles.mol_gen import MolGen

    from ..common import run_limited, viol
    from ..refsem import compat, parse_desc

    start = data["start"]
    depth = data["depth"]
    texts = PIECES
    label_cache = {}

    def label_of(desc_text):
        d = parse_desc(desc_text)
        key = (d.symbol, d.id, )
        return 1 + sorted({("$", None): 1, ("<", None): 2, (">", None): 3}.get(key, 4) for _ in [0])[0]

    def fresh():
        pieces = [MolGen(gbigsmiles.SmilesToken(t, 0, k)) for k, t in enumerate(texts)]
        g = MolGen(gbigsmiles.SmilesToken(texts[start], 0, len(texts)))
        return g, pieces

    def ref_label(d):
        return {"$": 2, "<": 3, ">": 4}.get(d.symbol, 5)

    def ref_canon(state):
        mol, dummies, descs = state
        return _canon_with_dummies(mol, {x: ref_label(d) for x, d in zip(dummies, descs)})

    def run_history(hist):
        """replay on fresh objects; returns (violation or None, list of enabled next ops)"""
        g, pieces = fresh()
        ref_g = _ref_piece(texts[start])
        ref_p = [_ref_piece(t) for t in texts]
        for (i, k, j) in hist:
            expect_ok = compat(ref_g[2][i], ref_p[k][2][j])
            st, out = run_limited(lambda: g.attach_other(i, pieces[k], j), (), 20)
            if expect_ok and st != "ok":
                return (f"C04|attach-raises|{texts[k]}", f"attach_other({i}, MolGen({texts[k]!r}), {j}) after {hist[: hist.index((i, k, j))]} raises {out} although the descriptors are compatible"), []
            if not expect_ok:
                if st == "ok":
                    return (f"C04|attach-accepts-incompatible|{texts[k]}", f"attach_other joins {ref_g[2][i]} with {ref_p[k][2][j]} (history {hist})"), []
                return None, []  # refused, as it must: the history ends here
            ref_g = _ref_attach(ref_g, ref_p[k], i, j)
            # the piece used as `other` is unchanged (it may be used again)
            try:
                same = _impl_canon(pieces[k], lambda t: {"$": 2, "<": 3, ">": 4}.get(parse_desc(t).symbol, 5)) == ref_canon(ref_p[k])
            except Exception as e:  # noqa
                same = False
            if not same:
                return (f"C04|attach-changes-the-other-molecule|{texts[k]}", f"after G.attach_other({i}, P, {j}) the molecule P = MolGen({texts[k]!r}) that was attached is no longer what it was (history {hist})"), []
            try:
                got = _impl_canon(g, lambda t: {"$": 2, "<": 3, ">": 4}.get(parse_desc(t).symbol, 5))
            except Exception as e:  # noqa
                return (f"C04|attach-result-not-a-molecule|{texts[k]}", f"history {hist} from MolGen({texts[start]!r}): {type(e).__name__}: {str(e)[:80]}"), []
            exp = ref_canon(ref_g)
            if got != exp:
                return (f"C04|attach-bonds-wrong-atoms|{'reused-piece' if sum(1 for h in hist if h[1] == k) > 1 else 'first-use'}", f"history {hist} from MolGen({texts[start]!r}) with pieces {texts}: result {got}, the descriptors denote {exp}"), []
        nxt = []
        for i in range(len(ref_g[2])):
            for k in range(len(texts)):
                for j in range(len(ref_p[k][2])):
                    nxt.append((i, k, j))
        return None, nxt

    frontier = [[]]
    n = 0
    seen_bad = set()
    for dep in range(depth):
        new = []
        for hist in frontier:
            v, nxt = run_history(hist) if hist else (None, run_history([])[1])
            for op in nxt:
                h2 = hist + [op]
                n += 1
                v2, nxt2 = run_history(h2)
                res["transitions"] += len(h2)
                if v2 is not None:
                    if v2[0] not in seen_bad:
                        seen_bad.add(v2[0])
                        viol(res, v2[0], v2[1], {"start": start, "hist": [list(x) for x in h2]})
                    continue
                # only histories whose last attach was accepted are extended; incompatible attempts end a history
                if nxt2 and dep + 1 < depth:
                    # keep the compatible continuations small: at most one incompatible attempt is explored per state
                    new.append(h2)
        frontier = new
    res["states"] = n
    res["traces"] = n
    res["evals"] = n
    res["nontrivial"] = ["attach-histories", texts[start], n]
    res["outcomes"] = [f"attach:{texts[start]}:{n}"]
    res["sample"] = {"start_piece": texts[start], "pieces": texts, "histories": n, "depth": depth}
    res["extra"] = {"attach_histories": n}
    return res
