"""C14 - generated ensembles have the declared composition by mass.

Explicit-state checking of the real ensemble generator.  Components have deterministic member masses (tokens / zero
width homopolymers).  A state is the vector of per-component yielded counts; the probability vector of the next component
pick is READ AT THE GENERATOR INTERFACE in every reachable state (the lattice of states is covered by monotone replay
paths; states reached by two different orders must expose the same vector, otherwise merging is refused).  Probability mass
is propagated exactly over the DAG of states to the stopping states, giving E[M_i] and E[M_total] without sampling.
Oracle: |E[M_i]/E[M_total] - f_i| <= n * m_max / S at each of the increasing system masses S (what any picker whose mass
shares converge satisfies: the overshoot is at most one molecule).
"""
import itertools

from .. import refsem as R
from ..common import HarnessError, new_result, viol
from ..scripted import ScriptedGenerator

ANCHORS = ["src/gbigsmiles/system.py", "README.md"]
LEVEL_RULE = (
    "explicit-state exploration of the ensemble generator: state = per-component yielded counts, transition = one component pick with the probability read at the "
    "real generator interface in that state, traces = replay paths executed on the real System.generator; non-trivial = distinct (system, system mass) pairs"
)
ASSUMPTIONS = [
    "member masses are deterministic by construction (tokens, zero-width laws), so a state is determined by the count vector; checked: two replay orders reaching the same state expose the same pick vector",
    "bound n*m_max/S: accumulated mass overshoots the system mass by at most one molecule",
]
BOUNDS = {"quick": "2 and 3 component systems, mass ratios 1..12, fractions on a grid, S = 8, 16 x m_max", "thorough": "ratios up to 40, 4 components, S = 8, 16, 32 x m_max"}
CASE_TIMEOUT = {"quick": 600, "thorough": 3000}

LIGHT = ["C", "O", "CC", "CO", "N"]
HEAVY = ["CCCCCCCCCC", "IC(I)I", "OCCOCCOCCOCC", "c1ccccc1CCCCCC", "BrCCCCBr"]


def systems(tier):
    out = []
    fr = [10, 50, 90] if tier == "quick" else [10, 30, 50, 70, 90]
    pairs = [("C", "CCCCCCCCCC"), ("CC", "CO"), ("O", "IC(I)I")] if tier == "quick" else [("C", "CCCCCCCCCC"), ("CC", "CO"), ("O", "IC(I)I"), ("N", "OCCOCCOCCOCC"), ("C", "ICC(I)(I)C(I)(I)I")]
    for (a, b), f in itertools.product(pairs, fr):
        out.append(([a, b], [f, 100 - f]))
    out.append((["C", "CCCC", "CCCCCCCCCC"], [30, 30, 40]))
    out.append((["C", "N{[>][<]CC[>][<]}|gauss(60.0, 0)|F"], [80, 20]))
    if tier == "thorough":
        out.append((["C", "CCCC", "CCCCCCCCCC"], [60, 30, 10]))
        out.append((["C", "CC", "CCCC", "CCCCCCCC"], [25, 25, 25, 25]))
        out.append((["O", "{[][$]CC[$]; [$]F[]}|gauss(100.0, 0)|"], [50, 50]))
    return out


def enumerate_cases(tier, seed):
    mult = [8, 16] if tier == "quick" else [8, 16, 32]
    for comps, fr in systems(tier):
        for k in mult:
            yield ("system", {"comps": comps, "fr": fr, "mult": k})


def member_mass(text):
    import gbigsmiles

    mg = gbigsmiles.Molecule(text).generate(rng=ScriptedGenerator([]))
    return float(mg.weight)


def eval_case(kind, data):
    import gbigsmiles
    from gbigsmiles.system import System

    res = new_result()
    comps, fr, mult = data["comps"], data["fr"], data["mult"]
    n = len(comps)
    masses = [member_mass(c) for c in comps]
    mmax = max(masses)
    Smass = round((mult + 0.37) * mmax, 3)  # off every multiple of the member masses: no accumulated mass lands on the total
    text = "".join(f"{c}.|{f}%|" for c, f in zip(comps[:-1], fr[:-1])) + f"{comps[-1]}.|{Smass * fr[-1] / 100.0!r}|"
    f = [x / 100.0 for x in fr]
    Smass = float(gbigsmiles.System(text).system_mass)  # the total the library derived (public accessor)
    # states whose accumulated mass is within float noise of the total are avoided by construction of Smass (8/16/32 x m_max)

    # --- read the pick vector in every reachable state through monotone replay paths
    pvec = {}
    npaths = 0
    nsteps = 0
    conflict = None

    def replay(order):
        """order: list of component indices to force; returns nothing, records p vectors of the states visited"""
        nonlocal npaths, nsteps, conflict
        npaths += 1

        rng = ScriptedGenerator([])
        counts = [0] * n
        pos = [0]
        in_pick = [True]  # the first generator request of every iteration of the ensemble loop is the component pick
        orig_choice = rng.choice

        def choice(a, size=None, replace=True, p=None, axis=0, shuffle=True):
            # component pick: `a` is range(n) and p has n entries; inner generation picks are answered by default 0
            arr = list(a) if not isinstance(a, int) else list(range(a))
            if in_pick[0]:
                in_pick[0] = False
                if p is None or len(arr) != n or arr != list(range(n)):
                    raise HarnessError(f"first request of an ensemble iteration is not a component pick: {arr}")
                key = tuple(counts)
                vec = tuple(round(float(x), 12) for x in p)
                if key in pvec and pvec[key] != vec:
                    conflict = (key, pvec[key], vec)
                pvec[key] = vec
                k = order[pos[0]] if pos[0] < len(order) else order[-1]
                pos[0] += 1
                if vec[k] <= 0:
                    raise StopIteration
                counts[k] += 1
                nsteps_inc()
                return arr[k]
            return orig_choice(a, size=size, replace=replace, p=p)

        def nsteps_inc():
            nonlocal nsteps
            nsteps += 1

        rng.choice = choice
        old = System.generator.fget.__defaults__
        System.generator.fget.__defaults__ = (rng,)
        try:
            sysobj = gbigsmiles.System(text)
            acc = 0.0
            for mg in sysobj.generator:
                acc += mg.weight
                in_pick[0] = True
                if sum(counts) > 5000:
                    raise HarnessError("runaway ensemble")
        except StopIteration:
            pass
        except RuntimeError as e:
            if "StopIteration" not in str(e):
                raise
        finally:
            System.generator.fget.__defaults__ = old

    # cover the lattice: for every vector of counts of the first n-1 components (heaviest-to-lightest order), force those
    # first and then the last component until the ensemble stops
    order_idx = sorted(range(n), key=lambda i: -masses[i])
    light = order_idx[-1]
    others = order_idx[:-1]
    maxc = [int(Smass / masses[i]) + 1 for i in others]
    for combo in itertools.product(*[range(c + 1) for c in maxc]):
        if sum(c * masses[i] for c, i in zip(combo, others)) >= Smass:
            # still visit the boundary path once (prefixes are states)
            pass
        order = []
        for c, i in zip(combo, others):
            order += [i] * c
        order += [light] * (int(Smass / masses[light]) + 2)
        replay(order)
    # a second family with the light component first: same states, different histories
    for c in range(0, int(Smass / masses[light]) + 1, max(1, int(Smass / masses[light]) // 6)):
        order = [light] * c + [others[0]] * (int(Smass / masses[others[0]]) + 2)
        replay(order)
    if conflict is not None:
        viol(res, "C14|pick-depends-on-history", f"{text}: state {conflict[0]} exposes pick vectors {conflict[1]} and {conflict[2]} on two different histories", {"text": text})

    # --- propagate probability mass over the DAG of states
    from collections import defaultdict

    prob = defaultdict(float)
    prob[tuple([0] * n)] = 1.0
    EM = [0.0] * n
    states = 0
    transitions = 0
    missing = 0
    missing_states = []
    frontier = [tuple([0] * n)]
    seen = {tuple([0] * n)}
    layer = 0
    while frontier:
        nxt = []
        for st in frontier:
            total = sum(c * m for c, m in zip(st, masses))
            if abs(total - Smass) < 1e-6:
                raise HarnessError(f"state {st} lands on the system mass within float noise; choose another total")
            if total >= Smass:
                continue
            states += 1
            if st not in pvec:
                # replay a history reaching this state (heaviest first), then continue with the lightest member
                order = []
                for i in order_idx:
                    order += [i] * st[i]
                replay(order + [light] * (int(Smass / masses[light]) + 2))
            if st not in pvec:
                missing += 1
                missing_states.append((st, total))
                continue
            p = pvec[st]
            for i in range(n):
                if p[i] <= 0:
                    continue
                transitions += 1
                st2 = tuple(c + (1 if j == i else 0) for j, c in enumerate(st))
                prob[st2] += prob[st] * p[i]
                EM[i] += prob[st] * p[i] * masses[i]
                if st2 not in seen:
                    seen.add(st2)
                    nxt.append(st2)
        frontier = nxt
        layer += 1
        # all states of a layer have the same number of molecules, so probabilities are final when the layer is expanded
    if missing:
        raise HarnessError(f"{missing} reachable states were not visited by the replay paths: {missing_states[:5]} S={Smass} masses={masses}")
    Etot = sum(EM)
    bound = n * mmax / Smass
    shares = [e / Etot for e in EM]
    worst = max(abs(s - fi) for s, fi in zip(shares, f))
    state_indep = len(set(pvec.values())) == 1
    p0 = pvec[tuple([0] * n)]
    if worst > bound:
        # diagnose the law for the finding key
        if state_indep and all(abs(a - b) < 1e-9 for a, b in zip(p0, f)):
            law = "pick-probability-equals-declared-mass-fraction"
        elif state_indep:
            law = "other-constant-pick-probability"
        else:
            law = "state-dependent-pick"
        viol(
            res,
            f"C14|mass-share-deviates|{law}",
            f"{text}: member masses {[round(m, 2) for m in masses]}, declared fractions {f}; exact expected mass shares {[round(s, 4) for s in shares]} (deviation {worst:.3f} > bound {bound:.3f} at system mass {Smass}); pick vector {p0}",
            {"text": text, "mult": mult},
        )
    res["states"] = states
    res["transitions"] = transitions
    res["traces"] = npaths
    res["evals"] = npaths
    res["nontrivial"] = [text, mult]
    res["outcomes"] = [f"{'const' if state_indep else 'dep'}:{round(worst, 2)}"]
    res["sample"] = {"system": text, "member_masses": masses, "declared": f, "expected_shares": [round(s, 5) for s in shares], "bound": round(bound, 4), "states": states, "replay_paths": npaths, "forced_picks": nsteps}
    res["extra"] = {"replay_paths": npaths, "forced_picks": nsteps}
    return res
