"""C14 - generated ensembles have the declared composition by mass.

Explicit-state checking of the real ensemble generator.  Components have deterministic member masses (tokens / zero
width homopolymers).  A state is the vector of per-component yielded counts; the probability vector of the next component
pick is READ AT THE GENERATOR INTERFACE in every reachable state (the lattice of states is covered by monotone replay
paths; states reached by two different orders must expose the same vector, otherwise merging is refused).  Probability mass
is propagated exactly over the DAG of states to the stopping states, giving E[M_i] and E[M_total] without sampling.
Oracle: |E[M_i]/E[M_total] - f_i| <= n * m_max / S at each of the increasing system masses S (what any picker whose mass
shares converge satisfies: the overshoot is at most one molecule).
"""
import itertools

from .. import refsem as R
from ..common import HarnessError, new_result, viol
from ..scripted import ScriptedGenerator

ANCHORS = ["src/gbigsmiles/system.py", "README.md"]
LEVEL_RULE = (
    "explicit-state exploration of the ensemble generator: state = per-component yielded counts, transition = one component pick with the probability read at the "
    "real generator interface in that state, traces = replay paths executed on the real System.generator; non-trivial = distinct (system, system mass) pairs"
)
ASSUMPTIONS = [
    "member masses are deterministic by construction (tokens, zero-width laws), so a state is determined by the count vector; checked: two replay orders reaching the same state expose the same pick vector",
    "bound n*m_max/S: accumulated mass overshoots the system mass by at most one molecule",
]
BOUNDS = {"quick": "2 and 3 component systems, mass ratios 1..12, fractions on a grid, S = 8, 16 x m_max", "thorough": "ratios up to 40, 4 components, S = 8, 16, 32 x m_max"}
CASE_TIMEOUT = {"quick": 600, "thorough": 3000}

LIGHT = ["C", "O", "CC", "CO", "N"]
HEAVY = ["CCCCCCCCCC", "IC(I)I", "OCCOCCOCCOCC", "c1ccccc1CCCCCC", "BrCCCCBr"]


def systems(tier):
    out = []
    fr = [10, 50, 90] if tier == "quick" else [10, 30, 50, 70, 90]
    pairs = [("C", "CCCCCCCCCC"), ("CC", "CO"), ("O", "IC(I)I")] if tier == "quick" else [("C", "CCCCCCCCCC"), ("CC", "CO"), ("O", "IC(I)I"), ("N", "OCCOCCOCCOCC"), ("C", "ICC(I)(I)C(I)(I)I")]
    for (a, b), f in itertools.product(pairs, fr):
        out.append(([a, b], [f, 100 - f]))
    out.append((["C", "CCCC", "CCCCCCCCCC"], [30, 30, 40]))
    # equal member masses (isomers): composition must come out right, also with a 0 % component that is not listed last
    out.append((["CCCCO", "CCOCC", "CC(C)CO"], [0, 30, 70]))
    out.append((["CCCCO", "CCOCC", "CC(C)CO"], [30, 0, 70]))
    out.append((["CCCCO", "CCOCC"], [50, 50]))
    out.append((["CCCCO", "CCOCC", "CC(C)CO"], [20, 30, 50]))
    out.append((["C", "N{[>][<]CC[>][<]}|gauss(60.0, 0)|F"], [80, 20]))
    if tier == "thorough":
        out.append((["C", "CCCC", "CCCCCCCCCC"], [60, 30, 10]))
        out.append((["C", "CC", "CCCC", "CCCCCCCC"], [25, 25, 25, 25]))
        out.append((["O", "{[][$]CC[$]; [$]F[]}|gauss(100.0, 0)|"], [50, 50]))
    return out


def enumerate_cases(tier, seed):
    mult = [8, 16] if tier == "quick" else [8, 16, 32]
    for comps, fr in systems(tier):
        for k in mult:
            yield ("system", {"comps": comps, "fr": fr, "mult": k})
    for comps, fr in [(["CCCCO", "CCOCC"], [25, 75]), (["CCCCO", "CCOCC", "CC(C)CO"], [20, 35, 45]), (["C", "CCCC"], [30, 70])]:
        yield ("system", {"comps": comps, "fr": fr, "mult": mult[0], "spell": "exp"})


class ForeignMolecule(Exception):
    """a yielded molecule belongs to no declared component"""


class NotOnePickPerMolecule(Exception):
    """the implementation does not consume exactly one component pick per yielded molecule: the count-vector state space
    does not describe it; no verdict is given (reported as capped), never an alarm"""


def member_mass(text):
    import gbigsmiles

    from rdkit import Chem
    from rdkit.Chem import Descriptors

    mg = gbigsmiles.Molecule(text).generate(rng=ScriptedGenerator([]))
    return float(Descriptors.HeavyAtomMolWt(Chem.MolFromSmiles(mg.smiles)))  # measured independently of MolGen.weight


def _eval(kind, data):
    import gbigsmiles
    from gbigsmiles.system import System
    from rdkit import Chem

    res = new_result()
    comps, fr, mult = data["comps"], data["fr"], data["mult"]
    n = len(comps)
    masses = [member_mass(c) for c in comps]
    canon = [Chem.CanonSmiles(gbigsmiles.Molecule(c).generate(rng=ScriptedGenerator([])).smiles) for c in comps]
    if len(set(canon)) != n:
        raise HarnessError("components are not distinguishable")
    mmax = max(masses)
    Smass = round((mult + 0.37) * mmax, 3)  # off every multiple of the member masses: no accumulated mass lands on the total
    if data.get("spell") == "exp":
        # the same numbers written in exponent notation (signed and unsigned exponents)
        pct = lambda x: f"{x / 10.0!r}e1" if x % 2 else f"{x * 10.0!r}e-1"  # noqa
        text = "".join(f"{c}.|{pct(f)}%|" for c, f in zip(comps[:-1], fr[:-1])) + f"{comps[-1]}.|{Smass * fr[-1] / 1e4!r}e+2|"
    else:
        text = "".join(f"{c}.|{f}%|" for c, f in zip(comps[:-1], fr[:-1])) + f"{comps[-1]}.|{Smass * fr[-1] / 100.0!r}|"
    f = [x / 100.0 for x in fr]
    Smass = float(gbigsmiles.System(text).system_mass)  # the total the library derived (public accessor)

    # --- the decision point of every ensemble iteration is read at the generator interface: its probability vector, and
    # --- (by forcing each alternative and looking at the molecule that is yielded) which component each alternative means
    pvec = {}  # state (observed counts) -> probability vector over alternatives
    amap = {}  # (state, alternative) -> observed component
    npaths = 0
    nsteps = 0
    conflict = []

    def replay(alts, tail_alt):
        """force the alternatives `alts` at the successive decision points, then `tail_alt` until the ensemble stops"""
        nonlocal npaths, nsteps
        npaths += 1
        rng = ScriptedGenerator([])
        counts = [0] * n
        pos = [0]
        pending = [None]  # (state, alternative) waiting for the molecule it produces
        in_pick = [True]
        orig_choice = rng.choice

        def choice(a, size=None, replace=True, p=None, axis=0, shuffle=True):
            arr = list(a) if not isinstance(a, int) else list(range(a))
            if not in_pick[0]:
                if len(arr) > 1 and p is not None and sum(1 for x in p if x > 0) > 1:
                    raise NotOnePickPerMolecule("a second random decision before the molecule is yielded (members are deterministic by construction)")
                return orig_choice(a, size=size, replace=replace, p=p)
            in_pick[0] = False
            if p is None:
                raise NotOnePickPerMolecule("component pick without probability vector")
            key = tuple(counts)
            vec = tuple(round(float(x), 12) for x in p)
            if key in pvec and pvec[key] != vec:
                conflict.append((key, pvec[key], vec))
            pvec[key] = vec
            j = alts[pos[0]] if pos[0] < len(alts) else tail_alt
            pos[0] += 1
            if j >= len(arr) or vec[j] <= 0:
                raise StopIteration
            pending[0] = (key, j)
            nonlocal nsteps
            nsteps += 1
            return arr[j]

        rng.choice = choice
        old = System.generator.fget.__defaults__
        System.generator.fget.__defaults__ = (rng,)
        try:
            sysobj = gbigsmiles.System(text)
            for mg in sysobj.generator:
                c = canon.index(Chem.CanonSmiles(mg.smiles)) if Chem.CanonSmiles(mg.smiles) in canon else None
                if c is None:
                    raise ForeignMolecule(f"{text}: the ensemble contains {mg.smiles}, which is an instance of none of the declared components (its mass counts towards no declared share)")
                if pending[0] is None:
                    raise NotOnePickPerMolecule("a molecule was yielded without a preceding decision")
                if pending[0] in amap and amap[pending[0]] != c:
                    conflict.append((pending[0], amap[pending[0]], c))
                amap[pending[0]] = c
                pending[0] = None
                counts[c] += 1
                in_pick[0] = True
                if sum(counts) > 5000:
                    raise NotOnePickPerMolecule("the ensemble does not stop (that is C13's subject); no composition verdict")
        except StopIteration:
            pass
        except RuntimeError as e:
            if "StopIteration" not in str(e):
                raise
        finally:
            System.generator.fget.__defaults__ = old

    # first look: how many alternatives, what do they mean
    replay([], 0)
    k = len(pvec[tuple([0] * n)])
    for j in range(1, k):
        replay([j], j)
    alt_of = {}
    for j in range(k):
        c = amap.get((tuple([0] * n), j))
        if c is not None:
            alt_of.setdefault(c, j)
    # cover the lattice of states with monotone paths: every vector of counts of all but one component, then the last one
    reach = sorted(alt_of, key=lambda c: -masses[c])
    if reach:
        light = reach[-1]
        others = reach[:-1]
        maxc = [int(Smass / masses[c]) + 1 for c in others]
        tail = [alt_of[light]]
        for combo in itertools.product(*[range(c + 1) for c in maxc]):
            alts = []
            for cnt, c in zip(combo, others):
                alts += [alt_of[c]] * cnt
            replay(alts, tail[0])
        if others:
            for cnt in range(0, int(Smass / masses[light]) + 1, max(1, int(Smass / masses[light]) // 6)):
                replay([alt_of[light]] * cnt, alt_of[others[0]])
    if conflict:
        viol(res, "C14|pick-depends-on-history", f"{text}: the same state exposes different decisions on two histories: {conflict[0]}", {"text": text})

    # does an alternative always mean the same component?  (observed on every (state, alternative) pair the cover visited)
    zero = tuple([0] * n)
    mapping_stable = all(amap.get((zero, j)) == c for (st_, j), c in amap.items())
    # --- propagate probability mass exactly over the DAG of states
    from collections import defaultdict

    prob = defaultdict(float)
    zero = tuple([0] * n)
    prob[zero] = 1.0
    EM = [0.0] * n
    states = 0
    transitions = 0
    frontier = [zero]
    seen = {zero}
    while frontier:
        nxt = []
        for st in frontier:
            total = sum(c * m for c, m in zip(st, masses))
            if abs(total - Smass) < 1e-6:
                raise HarnessError(f"state {st} lands on the system mass within float noise; choose another total")
            if total >= Smass:
                continue
            states += 1
            need_all = not mapping_stable
            if st not in pvec or (need_all and any((st, j) not in amap for j, pj in enumerate(pvec[st]) if pj > 0)):
                # replay a history reaching this state, then try every alternative there
                alts = []
                for c in reach:
                    alts += [alt_of[c]] * st[c]
                for j in range(k):
                    replay(alts + [j], alt_of[light])
            if st not in pvec:
                raise HarnessError(f"state {st} cannot be reached by replay")
            for j, pj in enumerate(pvec[st]):
                if pj <= 0:
                    continue
                c = amap.get((st, j))
                if c is None and mapping_stable:
                    c = amap.get((zero, j))  # the meaning of an alternative did not vary over the hundreds of observed (state, alternative) pairs
                if c is None:
                    raise HarnessError(f"alternative {j} in state {st} was never observed")
                transitions += 1
                st2 = tuple(x + (1 if i == c else 0) for i, x in enumerate(st))
                prob[st2] += prob[st] * pj
                EM[c] += prob[st] * pj * masses[c]
                if st2 not in seen:
                    seen.add(st2)
                    nxt.append(st2)
        frontier = nxt
    Etot = sum(EM)
    shares = [e / Etot for e in EM]
    state_indep = mapping_stable and len({v for s_, v in pvec.items() if sum(c * m for c, m in zip(s_, masses)) < Smass}) == 1
    p0 = pvec[zero]
    # per-component decision probability in the initial state
    pc = [0.0] * n
    for j, pj in enumerate(p0):
        if pj > 0 and amap.get((zero, j)) is not None:
            pc[amap[(zero, j)]] += pj
    if state_indep:
        # constant decision law: the mass shares converge to p_i m_i / sum_j p_j m_j (Wald's identity), exactly
        lim = [pc[i] * masses[i] for i in range(n)]
        tot = sum(lim)
        lim = [x / tot for x in lim]
        worst = max(abs(a - b) for a, b in zip(lim, f))
        bound = 1e-9
        shown = lim
    else:
        worst = max(abs(s_ - fi) for s_, fi in zip(shares, f))
        bound = n * mmax / Smass
        shown = shares
    if worst > bound:
        if state_indep and all(abs(a - b) < 1e-9 for a, b in zip(pc, f)) and max(masses) - min(masses) > 1e-6:
            law = "pick-probability-equals-declared-mass-fraction"
        elif state_indep:
            law = "other-constant-pick-probability"
        else:
            law = "state-dependent-pick"
        viol(
            res,
            f"C14|mass-share-deviates|{law}",
            f"{text}: member masses {[round(m, 2) for m in masses]}, declared fractions {f}; "
            + (f"constant pick law {[round(x, 4) for x in pc]} per component, so the mass shares converge to {[round(x, 4) for x in shown]}" if state_indep else f"exact expected mass shares {[round(x, 4) for x in shown]} at system mass {Smass} (bound {bound:.3f})"),
            {"text": text, "mult": mult},
        )
    res["states"] = states
    res["transitions"] = transitions
    res["traces"] = npaths
    res["evals"] = npaths
    res["nontrivial"] = [text, mult]
    res["outcomes"] = [f"{'const' if state_indep else 'dep'}:{round(worst, 3)}"]
    res["sample"] = {"system": text, "member_masses": masses, "declared": f, "expected_shares_at_this_total": [round(x, 5) for x in shares], "limit_shares": [round(x, 5) for x in shown], "states": states, "replay_paths": npaths, "forced_picks": nsteps}
    res["extra"] = {"replay_paths": npaths, "forced_picks": nsteps}
    return res


def eval_case(kind, data):
    try:
        return _eval(kind, data)
    except ForeignMolecule as e:
        res = new_result()
        viol(res, "C14|molecule-of-no-declared-component-in-the-ensemble", str(e), {"comps": data["comps"], "fr": data["fr"]})
        res["nontrivial"] = [str(data["comps"]), data["mult"]]
        res["traces"] = 1
        return res
    except NotOnePickPerMolecule as e:
        res = new_result()
        res["capped"] = True
        res["nontrivial"] = None
        res["sample"] = {"system": data["comps"], "no_verdict": str(e)}
        res["extra"] = {"systems_without_verdict": 1}
        return res
