"""C17 - the stochastic atom graph encodes all atoms, static bonds and admissible links.

For every molecule of the bounded enumeration (with and without Schulz-Zimm distributions) the real
StochasticAtomGraph is compared, as a multigraph, with the graph built independently from the structured description:
nodes (one per atom of every token: element, charge, aromaticity), static edges (token internal bonds, both directions),
and the non-static edges (stochastic / termination / transition) between attachment atoms of compatible descriptors.
"""
import itertools

from .. import refsem as R
from ..common import new_result, viol

ANCHORS = ["src/gbigsmiles/stochastic_atom_graph.py", "src/gbigsmiles/molecule.py", "src/gbigsmiles/core.py"]
LEVEL_RULE = (
    "every molecule of the bounded enumeration x {expect Schulz-Zimm, not}: state = one node or edge class of the reference graph, transition = one "
    "edge compared, trace = one real graph compared completely (multiset of edges keyed by end atoms, kind, weight, bond order); non-trivial = distinct molecules"
)
ASSUMPTIONS = [
    "node ids are consecutive in element / token / atom writing order (checked through the element, charge and aromaticity of every node)",
    "reference edge semantics transcribed from the property statement; a listed transition weight towards an end group is a growth (stochastic) edge",
]
BOUNDS = {"quick": "archetype families + weight/transition-list/junction variants, both expect_schulz_zimm settings", "thorough": "thorough families"}
CASE_TIMEOUT = {"quick": 300, "thorough": 1800}
BT = {1.0: 1, 2.0: 2, 3.0: 3, 1.5: 12}


def to_sz(spec):
    """same molecule with every distribution replaced by a Schulz-Zimm law"""
    els = []
    for e in spec["elements"]:
        e = dict(e)
        if e["k"] == "sto":
            e["dist"] = "schulz_zimm(70, 60)"
        els.append(e)
    return {"elements": els, "mixture": spec.get("mixture")}


def enumerate_cases(tier, seed):
    from ..instances import families, feature_instances
    from .c16 import extra_specs

    specs = [(i.family, i.spec) for i in families(tier, seed)] + [(i.family, i.spec) for i in feature_instances(tier, seed)] + extra_specs(tier)
    # drop near-duplicates of the homopolymer target sweep
    seen = set()
    uniq = []
    for fam, sp in specs:
        key = R.print_spec(to_sz(sp))
        if key not in seen:
            seen.add(key)
            uniq.append((fam, sp))
    step = 8
    for lo in range(0, len(uniq), step):
        yield ("graphs", {"specs": uniq[lo : lo + step]})


def ref_graph(nspec):
    """reference nodes and edges.  returns (nodes, static, other)
    nodes: list of (atomic_num, charge, aromatic, mw_tuple_or_None) in order
    static: set of (a, b, order) directed
    other: multiset list of (a, b, kind, weight, order)"""
    els = nspec["elements"]
    nodes = []
    static = []
    offs = {}  # (ei, ti) -> first node id
    tok_of = {}
    for ei, e in enumerate(els):
        toks = [e["text"]] if e["k"] == "tok" else e["rep"] + e["end"]
        for ti, t in enumerate(toks):
            tr = R.token_ref(t)
            offs[(ei, ti)] = len(nodes)
            tok_of[(ei, ti)] = t
            for (z, q, iso, arom) in tr.atoms:
                nodes.append((z, q, arom, ei))
            for (i, j, o) in tr.bonds:
                a, b = offs[(ei, ti)] + i, offs[(ei, ti)] + j
                static.append((a, b, o))
                static.append((b, a, o))

    def descs(ei, which):
        e = els[ei]
        out = []
        if e["k"] == "tok":
            if which in ("all", "rep"):
                for k, d in enumerate(R.token_ref(e["text"]).descs):
                    out.append((ei, 0, k, d, "tok"))
            return out
        for ti, t in enumerate(e["rep"]):
            if which in ("all", "rep"):
                for k, d in enumerate(R.token_ref(t).descs):
                    out.append((ei, ti, k, d, "rep"))
        for ti, t in enumerate(e["end"]):
            if which in ("all", "end"):
                for k, d in enumerate(R.token_ref(t).descs):
                    out.append((ei, ti + len(e["rep"]), k, d, "end"))
        return out

    def atom(x):
        return offs[(x[0], x[1])] + x[3].atom

    other = []
    for ei, e in enumerate(els):
        if e["k"] != "sto":
            continue
        alld = descs(ei, "all")
        for g in descs(ei, "rep"):
            gd = g[3]
            if gd.transitions is not None:
                for i, w in enumerate(gd.transitions):
                    if w > 0 and i < len(alld) and R.compat(gd, alld[i][3]):
                        other.append((atom(g), atom(alld[i]), "stochastic", w, gd.order))
            else:
                for y in alld:
                    if y[4] == "rep" and R.compat(gd, y[3]) and y[3].weight > 0:
                        other.append((atom(g), atom(y), "stochastic", y[3].weight, gd.order))
            for y in alld:
                if y[4] == "end" and R.compat(gd, y[3]) and y[3].weight > 0:
                    other.append((atom(g), atom(y), "termination", y[3].weight, gd.order))
    for ei in range(len(els) - 1):
        e, nx = els[ei], els[ei + 1]
        lhs = descs(ei, "rep")
        if e["k"] == "sto":
            Rt = R.terminal_ref(e["right"])
            lhs = [x for x in lhs if R.compat(x[3], Rt)]
        rhs = descs(ei + 1, "rep")
        if nx["k"] == "sto":
            Lt = R.terminal_ref(nx["left"])
            rhs = [x for x in rhs if R.compat(x[3], Lt)]
        for x in lhs:
            for y in rhs:
                if R.compat(x[3], y[3]):
                    other.append((atom(x), atom(y), "transition", y[3].weight, x[3].order))
    return nodes, static, other, offs


KINDS = (("stochastic", "stochastic_weight"), ("termination", "termination_weight"), ("transition", "transition_weight"), ("static", "static_weight"))


def edge_class(a, b, kind, nodes_el, nspec, offs, detail=""):
    """where an edge sits, for finding keys"""
    return kind


def mirror_spec(nspec):
    """the molecule 'as if its elements were written in reverse': elements reversed, terminals of every object swapped"""
    els = []
    for e in reversed(nspec["elements"]):
        e = dict(e)
        if e["k"] == "sto":
            e["left"], e["right"] = e["right"], e["left"]
        els.append(e)
    return {"elements": els, "mixture": nspec.get("mixture")}


def eval_case(kind, data):
    import gbigsmiles

    res = new_result()
    outcomes = set()
    for fam, spec0 in data["specs"]:
        for expect, variant in ((True, "plain"), (False, "plain"), (False, "graph-then-mirror"), (False, "mirror-first"), (True, "graph-then-mirror"), (True, "regenerate"), (False, "regenerate")):
            spec = to_sz(spec0) if expect else spec0
            text = R.print_spec(spec)
            nspec = R.normalize(spec)
            try:
                mol = gbigsmiles.Molecule(text)
            except Exception:  # noqa
                res["extra"]["rejected"] = res["extra"].get("rejected", 0) + 1
                continue
            if variant not in ("plain", "regenerate"):
                # history: (graph of the molecule,) mirror it, graph of the mirror - must describe the MIRRORED molecule
                if len(nspec["elements"]) < 2:
                    continue
                try:
                    if variant == "graph-then-mirror":
                        mol.gen_stochastic_atom_graph(expect_schulz_zimm_distribution=expect)
                    mol = mol.gen_mirror()
                    nspec = mirror_spec(nspec)
                    text = text + " (mirrored, " + variant + ")"
                except Exception as e:  # noqa
                    viol(res, f"C17|mirror-raises|{type(e).__name__}", f"{text}: gen_mirror raises {type(e).__name__}: {str(e)[:60]}", {"text": text})
                    continue
            try:
                sag = mol.gen_stochastic_atom_graph(expect_schulz_zimm_distribution=expect)
                if variant == "regenerate":
                    # history: the same StochasticAtomGraph object builds its graph a second time
                    sag.generate()
                    text = text + " (second generate() on the same StochasticAtomGraph object)"
                G = sag.graph
            except Exception as e:  # noqa
                tl = any(e2["k"] == "tok" and any(d.transitions is not None for d in R.token_ref(e2["text"]).descs) for e2 in nspec["elements"])
                viol(res, f"C17|graph-raises|{type(e).__name__}|{'token-with-list' if tl else 'other'}", f"{text}: gen_stochastic_atom_graph({expect}) raises {type(e).__name__}: {str(e)[:80]}", {"text": text, "expect": expect})
                continue
            res["traces"] += 1
            nodes, static, other, offs = ref_graph(nspec)
            res["states"] += len(nodes)
            # nodes
            gn = sorted(G.nodes(data=True), key=lambda x: x[0])
            if [n for n, _ in gn] != list(range(len(nodes))):
                viol(res, "C17|node-set", f"{text}: graph has {len(gn)} nodes, the tokens have {len(nodes)} atoms", {"text": text, "expect": expect})
                continue
            bad = False
            for (n, dt), (z, q, arom, ei) in zip(gn, nodes):
                if dt.get("atomic_num") != z or dt.get("formal_charge") != q or bool(dt.get("aromatic")) != bool(arom):
                    viol(res, "C17|node-attributes", f"{text}: node {n} is (Z={dt.get('atomic_num')}, q={dt.get('formal_charge')}, arom={dt.get('aromatic')}), the atom written there is (Z={z}, q={q}, arom={arom})", {"text": text, "expect": expect})
                    bad = True
                    break
                if expect:
                    e = nspec["elements"][ei]
                    if e["k"] == "sto":
                        if abs(dt.get("mn", -1) - 60.0) > 1e-9 or abs(dt.get("mw", -1) - 70.0) > 1e-9:
                            viol(res, "C17|node-mn-mw", f"{text}: node {n} carries mn={dt.get('mn')} mw={dt.get('mw')}, declared schulz_zimm(Mw=70, Mn=60)", {"text": text, "expect": expect})
                            bad = True
                            break
            if bad:
                continue
            # edges
            got_static = []
            got_other = []
            for a, b, ed in G.edges(data=True):
                ks = [k for k, attr in KINDS if ed.get(attr, 0) != 0]
                if len(ks) != 1:
                    # an edge whose weights are all zero: classify by comparing with the reference below
                    got_other.append((a, b, "zero", 0.0, ed.get("bond_type")))
                    continue
                k = ks[0]
                wt = float(ed[dict(KINDS)[k]])
                if k == "static":
                    got_static.append((a, b, ed.get("bond_type")))
                else:
                    got_other.append((a, b, k, wt, ed.get("bond_type")))
            exp_static = sorted((a, b, BT[o]) for (a, b, o) in static)
            res["transitions"] += len(exp_static) + len(other)
            if sorted(got_static) != exp_static:
                miss = [x for x in exp_static if x not in got_static]
                extra = [x for x in got_static if x not in exp_static]
                viol(res, f"C17|static-edges|{'missing' if miss else 'extra'}", f"{text}: static edges differ from the token bonds: missing {miss[:3]}, extra {extra[:3]}", {"text": text, "expect": expect})
            # an edge whose weight is 0 carries no kind in the implementation's encoding (all four weights are 0)
            exp_other = sorted((a, b, k if w != 0 else "zero", round(w, 9), BT[o]) for (a, b, k, w, o) in other)
            g_other = sorted((a, b, k, round(w, 9), bt) for (a, b, k, w, bt) in got_other)
            outcomes.add(f"{fam}:{len(exp_other)}")
            if g_other != exp_other:
                from collections import Counter

                ce, cg = Counter(exp_other), Counter(g_other)
                missing = list((ce - cg).elements())
                extra = list((cg - ce).elements())
                for x in missing[:40]:
                    cls = classify_edge(x, "missing", nspec, offs, nodes, extra)
                    viol(res, f"C17|missing-edge|{x[2]}|{cls}", f"{text} (expect_schulz_zimm={expect}): edge {x} required by the notation is missing", {"text": text, "expect": expect})
                for x in extra[:40]:
                    cls = classify_edge(x, "extra", nspec, offs, nodes, missing)
                    viol(res, f"C17|extra-edge|{x[2]}|{cls}", f"{text} (expect_schulz_zimm={expect}): edge {x} is not an admissible link of the notation", {"text": text, "expect": expect})
    res["evals"] = res["traces"]
    res["outcomes"] = sorted(outcomes)
    res["nontrivial"] = [R.print_spec(data["specs"][0][1]), res["traces"]] if res["traces"] else None
    res["sample"] = {"molecule": R.print_spec(data["specs"][0][1])}
    return res


def _owner(node, nspec, offs):
    """(element index, role, token text, local atom) of a node id"""
    best = None
    for (ei, ti), off in offs.items():
        if off <= node and (best is None or off > best[2]):
            best = (ei, ti, off)
    ei, ti, off = best
    e = nspec["elements"][ei]
    if e["k"] == "tok":
        return ei, "tok", e["text"], node - off
    toks = e["rep"] + e["end"]
    return ei, ("rep" if ti < len(e["rep"]) else "end"), toks[ti], node - off


def classify_edge(x, what, nspec, offs, nodes, counterpart):
    a, b, kind, w, bt = x
    ea, ra, ta, la = _owner(a, nspec, offs)
    eb, rb, tb, lb = _owner(b, nspec, offs)
    da = [d for d in R.token_ref(ta).descs if d.atom == la]
    listed = any(d.transitions is not None for d in da)
    if what == "extra":
        if kind == "termination" and listed:
            return f"listed-descriptor-termination-to-{rb}"
        if kind == "transition" and ra == "end":
            return "transition-leaves-end-group"
        if kind == "zero":
            return f"zero-weight-edge-{ra}-to-{rb}"
        return f"{ra}-to-{rb}"
    else:
        if kind == "termination" and listed:
            return "listed-descriptor-termination"
        if kind == "transition" and w == 0:
            return "zero-weight-transition"
        return f"{ra}-to-{rb}"
