"""C12 - mixture bookkeeping: percentages sum to 100 and masses are consistent.

Complete enumeration of the configuration space: every assignment of {absolute mass, percentage, unspecified} to the
components of 1..4 (5 in thorough) component systems x external system mass {none, consistent, inconsistent}.  The
reference MixtureModel classifies each configuration by exact rational linear algebra as determined / under-determined /
contradictory and gives the solution; the real System is built for every configuration and compared, then taken through
print -> parse -> print.
"""
import itertools
from fractions import Fraction

from ..common import new_result, run_limited, viol

ANCHORS = ["src/gbigsmiles/system.py", "src/gbigsmiles/mixture.py", "src/gbigsmiles/molecule.py"]
LEVEL_RULE = (
    "all assignments of {absolute, percent, unspecified} with values from a small alphabet to 1..n components x external mass; state = one configuration, "
    "transition = one constructor / accessor / print-parse step compared with the exact solution of the linear system, trace = one configuration built "
    "by the real System; non-trivial = distinct configurations"
)
ASSUMPTIONS = [
    "an unspecified component can only be written last (the notation separates components at '.|')",
    "masses compared at 1e-6 relative; 'determined' decided with exact rationals",
    "the statement quantifies over positive masses and percentages: 0 % components are not enumerated",
]
BOUNDS = {"quick": "1..5 components, absolute in {60,150,1e3,0.5,400000}, percent in {10,25,50,75,90,100,110,-5,33.3,12.5,2.5} + signed exponents, external mass none/consistent/inconsistent", "thorough": "as quick + absolute 12345.678, percent 0.1 / 99.9"}
CASE_TIMEOUT = {"quick": 300, "thorough": 1800}
TOK = ["C", "CC", "CCC", "CCCC", "CCCCC"]


def configs(tier):
    absv = ["60", "150"]
    pct = ["10", "25", "50", "75", "90", "100", "110", "-5"]
    sci = [("a", "1.5e+2"), ("p", "2.5e+1"), ("p", "5e-1"), ("a", "6e-1"), ("p", "1e-3")]  # signed exponents
    absv += ["1e3", "0.5", "400000", "1234."]  # '1234.' is the spelling of the Mixture docstring; it ends in the separator's characters
    pct += ["33.3", "12.5", "2.5", "99.9"]
    if tier == "thorough":
        absv += ["12345.678"]
        pct += ["0.1", "99.99"]
    nmax = 5
    for n in range(1, nmax + 1):
        opts = [("a", v) for v in absv] + [("p", v) for v in pct]
        if n >= 4:
            opts = [("a", "60"), ("a", "150"), ("p", "10"), ("p", "25"), ("p", "50"), ("p", "5")] + ([("p", "110")] if n == 4 else [])
        last = opts + [("u", None)]  # the notation can only leave the LAST component without a specifier
        for combo in itertools.product(*([opts] * (n - 1) + [last])):
            yield list(combo)
        if n <= 3:
            # one component written in exponent notation with a signed exponent, the others from the core alphabet
            core = [("a", "60"), ("p", "10"), ("p", "50"), ("p", "99.5")]
            for pos in range(n):
                for sc in sci:
                    for combo in itertools.product(*([core] * (n - 1))):
                        c = list(combo)
                        c.insert(pos, sc)
                        yield c
                    if pos == n - 1 and n > 1:
                        for combo in itertools.product(*([core + sci[:2]] * (n - 1))):
                            yield list(combo) + [("u", None)]


def solve(cfg, ext):
    """reference classification: ('determined', S, [masses]) | ('under',) | ('reject', why)"""
    for k, v in cfg:
        if k == "p" and not (0 <= Fraction(v) <= 100):
            return ("reject", "percent out of range")
        if k == "a" and Fraction(v) < 0:
            return ("reject", "negative mass")
    A = sum(Fraction(v) for k, v in cfg if k == "a")
    P = sum(Fraction(v) for k, v in cfg if k == "p") / 100
    U = sum(1 for k, v in cfg if k == "u")
    if P > 1:
        return ("reject", "percentages above 100")
    S = None
    if ext is not None:
        S = Fraction(ext)
    elif U == 0:
        if P < 1:
            S = A / (1 - P)
            if S == 0:
                return ("reject", "percentages do not sum to 100")
        else:
            if A > 0:
                return ("reject", "100 % plus an absolute mass")
            return ("under",)
    else:
        return ("under",)
    rest = S * (1 - P) - A
    if U == 0:
        if abs(rest) > Fraction(1, 10**6) * max(1, S):
            return ("reject", "inconsistent total")
    elif U == 1:
        if rest < 0:
            return ("reject", "negative remainder")
    else:
        return ("under",)
    if S <= 0:
        return ("under",)
    masses = []
    for k, v in cfg:
        if k == "a":
            masses.append(Fraction(v))
        elif k == "p":
            masses.append(Fraction(v) / 100 * S)
        else:
            masses.append(rest)
    return ("determined", S, masses)


def text_of(cfg):
    s = ""
    for i, (k, v) in enumerate(cfg):
        s += TOK[i]
        if k == "a":
            s += f".|{v}|"
        elif k == "p":
            s += f".|{v}%|"
    return s


def ext_options(cfg):
    """external masses to try: none, one consistent with the configuration (if any), one inconsistent"""
    out = [None]
    r = solve(cfg, None)
    if r[0] == "determined":
        out += [str(float(r[1])) if float(r[1]) != int(r[1]) else str(int(r[1])), str(float(r[1]) * 2 + 7)]
    else:
        out += ["1000", "300"]
    return out


def eval_mixture_histories(res, data):
    """explicit-state search over setter calls on ONE Mixture object (the object a System assigns its total to): after
    every call the value the user wrote is still there and absolute = relative / 100 x system"""
    import itertools as it

    import gbigsmiles

    totals = [1000.0, 2000.0, 1000.0 / 3.0]
    n = 0
    states = set()
    for text, kind, val in data["mixtures"]:
        for depth in (1, 2, 3):
            for seq in it.product(range(len(totals)), repeat=depth):
                m = gbigsmiles.Mixture(text)
                n += 1
                for step, ti in enumerate(seq):
                    m.system_mass = totals[ti]
                    str(m)
                    res["transitions"] += 1
                    a, r, s_ = m.absolute_mass, m.relative_mass, m.system_mass
                    states.add((text, round(float(a), 6) if a is not None else None, round(float(r), 6) if r is not None else None, s_))
                    written = r if kind == "p" else a
                    bad = None
                    if written is None or float(written) != val:
                        bad = f"the written {'percentage' if kind == 'p' else 'mass'} {val} now reads {written!r}"
                    elif s_ != totals[ti]:
                        bad = f"system mass reads {s_!r}"
                    elif a is None or r is None or abs(float(a) - float(r) / 100.0 * totals[ti]) > 1e-9 * max(1.0, abs(float(a))):
                        bad = f"absolute {a!r} is not {r!r} % of {totals[ti]!r}"
                    if bad:
                        viol(res, f"C12|mixture-history|{'percent' if kind == 'p' else 'absolute'}-written|{'first' if step == 0 else 'later'}-assignment", f"Mixture({text!r}) after system_mass := {[totals[i] for i in seq[: step + 1]]}: {bad}", {"text": text, "seq": list(seq)})
                        break
    res["states"] = len(states)
    res["traces"] = n
    res["evals"] = n
    res["nontrivial"] = ["mixture-histories", n]
    res["outcomes"] = ["mixture-histories"]
    res["sample"] = {"mixtures": [m[0] for m in data["mixtures"]], "histories": n}
    return res


def enumerate_cases(tier, seed):
    yield ("mixture-histories", {"mixtures": [[".|25%|", "p", 25.0], [".|250|", "a", 250.0], [".|2.5e1%|", "p", 25.0], [".|1234.|", "a", 1234.0], [".|33.3%|", "p", 33.3], [".|0.1|", "a", 0.1]]})
    cfgs = list(configs(tier))
    step = 150
    for lo in range(0, len(cfgs), step):
        yield ("configs", {"cfgs": cfgs[lo : lo + step]})


def cfg_class(cfg, ext):
    ks = "".join(k for k, v in cfg)
    return f"{ks}|ext={'yes' if ext is not None else 'no'}"


def eval_case(kind, data):
    import gbigsmiles

    import numpy as np

    res = new_result()
    if kind == "mixture-histories":
        return eval_mixture_histories(res, data)
    classes = set()
    nconv = [0]
    for cfg in data["cfgs"]:
        cfg = [tuple(x) for x in cfg]
        text = text_of(cfg)
        for ext in ext_options(cfg):
            ref = solve(cfg, ext)
            res["states"] += 1
            res["traces"] += 1
            res["transitions"] += 1
            # the caller's total arrives as a Python float, a NumPy float or an integer type (np.sum(...) results are common)
            nconv[0] += 1
            conv = (float, np.float64, lambda x: (np.int64(float(x)) if float(x).is_integer() else np.float64(x)), lambda x: (int(float(x)) if float(x).is_integer() else float(x)))[nconv[0] % 4]
            st, obj = run_limited(lambda: gbigsmiles.System(text, None if ext is None else conv(ext)), (), 10)
            classes.add(f"{ref[0]}:{'raise' if st != 'ok' else 'obj'}")
            shape = cfg_class(cfg, ext)
            if st in ("timeout", "memory"):
                viol(res, f"C12|non-termination|{shape}", f"System({text!r}, {ext}) does not return", {"text": text, "ext": ext})
                continue
            if ref[0] == "reject":
                if st == "ok":
                    try:
                        gable = obj.generable
                    except Exception:  # noqa
                        gable = "raises"
                    if gable is False:
                        # refusing to generate is accepted as a (soft) rejection of a contradictory specification
                        res["extra"]["contradictions_refused_as_not_generable"] = res["extra"].get("contradictions_refused_as_not_generable", 0) + 1
                        continue
                    kinds = [k for k, v in cfg]
                    why = ref[1]
                    if ext is not None and kinds.count("a") >= 1 and kinds.count("p") >= 1:
                        from fractions import Fraction as _F

                        ps = sum(_F(v) for k, v in cfg if k == "p")
                        why = "absolute-and-percent-not-cross-checked-against-external-total" + ("|one-absolute" if kinds.count("a") == 1 else "|several-absolute")
                    viol(res, f"C12|accepted-contradiction|{why}|generable={gable}", f"System({text!r}, {ext}) is accepted (generable={gable}) although the specification is contradictory: {ref[1]}", {"text": text, "ext": ext})
                continue
            if st != "ok":
                viol(res, f"C12|rejected-{ref[0]}|{shape}", f"System({text!r}, {ext}) raises {obj} although the specification is {ref[0]}", {"text": text, "ext": ext})
                continue
            try:
                gable = bool(obj.generable)
            except Exception as e:  # noqa
                viol(res, f"C12|generable-raises|{shape}", f"System({text!r}, {ext}).generable raises {e}", {"text": text, "ext": ext})
                continue
            if ref[0] == "under":
                if gable:
                    viol(res, f"C12|under-determined-generable|{shape}", f"System({text!r}, {ext}) reports generable although its masses are not determined", {"text": text, "ext": ext})
                continue
            # determined
            S, masses = ref[1], ref[2]
            if not gable:
                kinds = [k for k, v in cfg]
                npct, nabs, nun = kinds.count("p"), kinds.count("a"), kinds.count("u")
                if ext is None and nun == 0 and nabs >= 2 and npct >= 1:
                    shape = "several-absolute-masses-with-percentages"
                elif ext is not None and nun == 1 and nabs >= 1:
                    shape = "unspecified-component-beside-absolute-masses-with-external-total"
                viol(res, f"C12|determined-not-generable|{shape}", f"System({text!r}, {ext}) is determined (system mass {float(S)}) but reports not generable", {"text": text, "ext": ext})
                continue
            res["transitions"] += 4
            try:
                sm = obj.system_mass
                mols = obj._molecules
                rel = [m.mixture.relative_mass for m in mols]
                ab = [m.mixture.absolute_mass for m in mols]
                sms = [m.mixture.system_mass for m in mols]
            except Exception as e:  # noqa
                viol(res, f"C12|accessor-raises|{shape}", f"System({text!r}, {ext}): {type(e).__name__} {e}", {"text": text, "ext": ext})
                continue

            def close(a, b):
                return a is not None and abs(float(a) - float(b)) <= 1e-6 * max(1.0, abs(float(b)))

            if not close(sm, S) or not all(close(x, S) for x in sms):
                viol(res, f"C12|system-mass|{shape}", f"System({text!r}, {ext}): system mass {sm} / {sms}, exact {float(S)}", {"text": text, "ext": ext})
            if any(r is None for r in rel) or abs(sum(rel) - 100) > 1e-6:
                viol(res, f"C12|percent-sum|{shape}", f"System({text!r}, {ext}): percentages {rel} do not sum to 100", {"text": text, "ext": ext})
            elif not all(close(a, m) for a, m in zip(ab, masses)) or not all(close(r, 100 * m / S) for r, m in zip(rel, masses)):
                viol(res, f"C12|component-mass|{shape}", f"System({text!r}, {ext}): masses {ab} / percentages {rel}, exact {[float(m) for m in masses]}", {"text": text, "ext": ext})
            # every value the user wrote is kept as written (exactly: it is stored, not recomputed)
            for (k_, v_), r_, a_ in zip(cfg, rel, ab):
                if k_ == "p" and r_ is not None and float(r_) != float(v_):
                    viol(res, f"C12|written-percentage-not-kept|{shape}", f"System({text!r}, {ext}): the component written {v_}% reports {r_!r}%", {"text": text, "ext": ext})
                    break
                if k_ == "a" and a_ is not None and float(a_) != float(v_):
                    viol(res, f"C12|written-mass-not-kept|{shape}", f"System({text!r}, {ext}): the component written with mass {v_} reports {a_!r}", {"text": text, "ext": ext})
                    break
            # print -> parse keeps the masses
            try:
                c = str(obj)
                o2 = gbigsmiles.System(c)
                ab2 = [m.mixture.absolute_mass for m in o2._molecules]
                res["transitions"] += 2
                if not o2.generable or len(ab2) != len(masses) or not all(close(a, m) for a, m in zip(ab2, masses)):
                    viol(res, f"C12|reparse-masses|{shape}", f"System({text!r}, {ext}) prints {c!r}, which re-parses to masses {ab2} (exact {[float(m) for m in masses]})", {"text": text, "ext": ext})
                elif str(o2) != c:
                    viol(res, f"C12|reparse-not-fixed|{shape}", f"{c!r} prints as {str(o2)!r}", {"text": text, "ext": ext})
            except Exception as e:  # noqa
                viol(res, f"C12|reparse-raises|{shape}", f"System({text!r}, {ext}): printed form cannot be re-parsed: {type(e).__name__} {e}", {"text": text, "ext": ext})
    res["evals"] = res["traces"]
    res["outcomes"] = sorted(classes)
    res["nontrivial"] = [text_of([tuple(x) for x in data["cfgs"][0]]), len(data["cfgs"])]
    res["sample"] = {"configuration": text_of([tuple(x) for x in data["cfgs"][0]]), "external_masses": ext_options([tuple(x) for x in data["cfgs"][0]])}
    return res
