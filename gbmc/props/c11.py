"""C11 - each molecular-weight distribution is one coherent probability law.

For the six families x a parameter grid: (a) every integer of the support (discrete laws) / a fine mass grid (continuous
laws) through the real prob_mw: non-negativity, normalisation, agreement with the reference closed form; (b) interval
arguments over all pairs of a coarse grid: prob_mw(interval) == F(b) - F(a), additive; (c) EVERY quantile of a grid plus
tail quantiles through the real draw_mw with a scripted generator (each draw sandboxed): finite, in the support, monotone in
the quantile, inverting the same cdf; documented mean; (d) text round trip and rejection of every single-character
corruption of the six names.
"""
import math

from ..common import new_result, run_limited, viol
from ..scripted import ScriptedGenerator

ANCHORS = ["src/gbigsmiles/distribution.py", "src/gbigsmiles/mol_prob.py"]
LEVEL_RULE = (
    "family x parameter set x {support enumeration, interval pairs, quantile grid, text forms}: state = one (law, argument) point, transition = one real prob_mw / "
    "draw_mw / constructor call compared with the reference closed form, trace = one such call; non-trivial = distinct (family, parameters, clause)"
)
ASSUMPTIONS = [
    "reference laws: scipy.stats norm / uniform / poisson / gamma / lognorm and the Flory-Schulz closed form, with the DOCUMENTED parameter meaning",
    "numpy's standard_normal and poisson samplers are trusted: at that seam the requested law and parameters are checked and the reference quantile is returned",
    "the Schulz-Zimm law is implemented on integer masses; it is compared with the continuous gamma law to +-1 mass unit",
    "a draw needing more than 20 s or 4 GB counts as non-terminating",
]
BOUNDS = {"quick": "2-3 parameter sets per family, quantile grid J=100 + tails", "thorough": "5-6 parameter sets per family, J=1000 + tails"}
CASE_TIMEOUT = {"quick": 900, "thorough": 3000}

PARAMS = {
    "quick": {
        "flory_schulz": [(0.3,), (0.1,), (0.05,)],
        "schulz_zimm": [(150.0, 120.0), (600.0, 450.0), (90.0, 60.0), (1500.0, 1000.0), (200.0, 100.0)],
        "gauss": [(100.0, 20.0), (1500.0, 50.0)],
        "uniform": [(12, 72), (500, 600), (12.5, 72.5)],
        "log_normal": [(50.0, 1.1), (300.0, 1.5)],
        "poisson": [(6.5,), (65.0,)],
    },
    "thorough": {
        "flory_schulz": [(0.5,), (0.3,), (0.1,), (0.05,), (0.02,), (0.011,)],
        "schulz_zimm": [(150.0, 120.0), (600.0, 450.0), (1500.0, 1000.0), (5000.0, 4500.0), (90.0, 60.0), (200.0, 100.0), (2000.0, 1000.0)],
        "gauss": [(100.0, 20.0), (1500.0, 50.0), (5000.0, 150.0), (20.0, 60.0), (40.0, 0.5)],
        "uniform": [(12, 72), (500, 600), (0, 10), (1000, 1001), (12.5, 72.5), (99.9, 200.1)],
        "log_normal": [(50.0, 1.1), (300.0, 1.5), (5000.0, 1.05), (20.0, 3.0)],
        "poisson": [(1.5,), (6.5,), (65.0,), (900.0,)],
    },
}
NAMES = ["flory_schulz", "schulz_zimm", "gauss", "uniform", "log_normal", "poisson"]


def dist_text(fam, par):
    return f"{fam}({', '.join(repr(x) for x in par)})"


class Ref:
    """reference law with the documented parameter meaning"""

    def __init__(self, fam, par):
        from scipy import stats

        self.fam, self.par = fam, par
        self.discrete = fam in ("flory_schulz", "poisson", "schulz_zimm")
        if fam == "gauss":
            self.d = stats.norm(par[0], par[1])
            self.mean = par[0]
            self.lo, self.hi = -math.inf, math.inf
        elif fam == "uniform":
            self.d = stats.uniform(int(par[0]), int(par[1]) - int(par[0]))
            self.mean = (int(par[0]) + int(par[1])) / 2
            self.lo, self.hi = int(par[0]), int(par[1])
        elif fam == "poisson":
            self.d = stats.poisson(par[0])
            self.mean = par[0]
            self.lo, self.hi = 0, math.inf
        elif fam == "schulz_zimm":
            Mw, Mn = par
            z = Mn / (Mw - Mn)
            self.d = stats.gamma(z, scale=Mn / z)
            self.mean = Mn
            self.lo, self.hi = 0, math.inf
        elif fam == "log_normal":
            Mn, D = par
            s2 = math.log(D)
            self.d = stats.lognorm(s=math.sqrt(s2), scale=math.exp(math.log(Mn) - s2 / 2))
            self.mean = Mn
            self.lo, self.hi = 0, math.inf
        elif fam == "flory_schulz":
            self.a = par[0]
            self.mean = 2 / par[0] - 1
            self.lo, self.hi = 1, math.inf
            self.d = None

    def cdf(self, x):
        if self.fam == "flory_schulz":
            k = math.floor(x)
            if k < 1:
                return 0.0
            a = self.a
            return 1 - (1 - a) ** k * (1 + a * k)
        return float(self.d.cdf(x))

    def point(self, x):
        """pmf / pdf"""
        if self.fam == "flory_schulz":
            k = int(x)
            return self.a**2 * k * (1 - self.a) ** (k - 1) if k >= 1 else 0.0
        if self.fam == "poisson":
            return float(self.d.pmf(int(x)))
        if self.fam == "schulz_zimm":
            return float(self.d.pdf(int(x)))
        return float(self.d.pdf(x))

    def ppf(self, u):
        if self.fam == "flory_schulz":
            k = 1
            while self.cdf(k) < u:
                k += 1
                if k > 10**7:
                    return math.inf
            return float(k)
        return float(self.d.ppf(u))

    def upper(self):
        """a mass beyond which 1e-12 of the law lies"""
        if self.fam == "flory_schulz":
            return self.ppf(1 - 1e-12)
        if self.fam == "uniform":
            return float(self.hi)
        return float(self.d.ppf(1 - 1e-12))


class DiscretisedSZ:
    """the Schulz-Zimm law exactly as documented in the library: the continuous density evaluated on integer masses and
    used as a probability mass function (not normalised).  Used only to DIAGNOSE: a deviation from the continuous law that
    matches this object is the known discretisation finding, anything else is a new violation."""

    def __init__(self, ref):
        self.ref = ref
        self.cum = [ref.point(0)]

    def cdf(self, x):
        import math as _m

        k = _m.floor(x)
        if k < 0:
            return 0.0
        while len(self.cum) <= k:
            self.cum.append(self.cum[-1] + self.ref.point(len(self.cum)))
        return min(1.0, self.cum[k])  # scipy clips cumulative values of a discrete law at 1

    def ppf(self, u, limit=200000):
        k = 0
        while self.cdf(k) < u:
            k += 1
            if k > limit:
                return None
        return float(k)


def enumerate_cases(tier, seed):
    for fam in NAMES:
        for par in PARAMS[tier][fam]:
            for clause in ("support", "intervals", "draws", "text"):
                yield ("law", {"fam": fam, "par": list(par), "clause": clause, "tier": tier})
        # several live objects of one family: constructing / using another object must not change an existing one
        ps = PARAMS[tier][fam]
        for i in range(len(ps)):
            yield ("law", {"fam": fam, "par": list(ps[i]), "clause": "coexistence", "tier": tier, "other": list(ps[(i + 1) % len(ps)])})
    yield ("names", {})


def interval(a, b):
    from gbigsmiles.mol_prob import RememberAdd

    r = RememberAdd(a)
    r += b - a
    return r


def eval_case(kind, data):
    import gbigsmiles
    from gbigsmiles.distribution import get_distribution

    res = new_result()
    if kind == "names":
        n = 0
        accepted = []
        for name in NAMES:
            args = {"flory_schulz": "(0.1)", "schulz_zimm": "(500, 400)", "gauss": "(100, 20)", "uniform": "(10, 60)", "log_normal": "(50, 1.2)", "poisson": "(65)"}[name]
            variants = set()
            for i in range(len(name)):
                variants.add(name[:i] + name[i + 1 :])
                for ch in "xq_":
                    variants.add(name[:i] + ch + name[i + 1 :])
                    variants.add(name[:i] + ch + name[i:])
            for ch in ["x", "_v2", "ian", "10", "s"]:
                variants.add(name + ch)
            variants.add(name.upper())
            variants.add(name.capitalize())
            variants -= set(NAMES)
            for v in sorted(variants):
                if any(v == k for k in NAMES):
                    continue
                n += 1
                res["states"] += 1
                res["transitions"] += 1
                res["traces"] += 1
                st, o = run_limited(lambda: get_distribution(v + args), (), 5)
                if st == "ok":
                    accepted.append(v)
                    viol(res, f"C11|unknown-name-accepted|{name}|{'suffix' if v.startswith(name) else 'prefix' if v.endswith(name) else 'inner'}", f"unknown distribution name {v + args!r} is accepted as {str(o)}", {"text": v + args})
                # also inside a molecule
                st, o = run_limited(lambda: gbigsmiles.Molecule("N{[>][<]CC[>][<]}|" + v + args + "|F"), (), 5)
                if st == "ok" and o.generable:
                    viol(res, f"C11|unknown-name-accepted-in-molecule|{name}|{'suffix' if v.startswith(name) else 'prefix' if v.endswith(name) else 'inner'}", f"molecule with unknown distribution {v + args!r} is accepted and generable", {"text": v + args})
        res["evals"] = n
        res["nontrivial"] = ["names", n]
        res["outcomes"] = ["names"]
        res["sample"] = {"corrupted_names_tried": n}
        return res

    fam, par, clause, tier = data["fam"], tuple(data["par"]), data["clause"], data["tier"]
    text = dist_text(fam, par)
    ref = Ref(fam, par)
    tag = f"{fam}{par}"
    st, dist = run_limited(lambda: get_distribution(text), (), 10)
    if st != "ok":
        viol(res, f"C11|constructor-raises|{fam}", f"get_distribution({text!r}) raises {dist}", {"text": text})
        return res
    upper = ref.upper()
    dsz = DiscretisedSZ(ref) if fam == "schulz_zimm" else None

    def cmp(key, what, got, exp, tol):
        res["transitions"] += 1
        res["traces"] += 1
        if not (isinstance(got, (int, float)) or hasattr(got, "__float__")) or not math.isfinite(float(got)) or abs(float(got) - exp) > tol:
            viol(res, key, f"{text}: {what}: implementation {got!r}, reference law {exp!r}", {"text": text})
            return False
        return True

    if clause == "support":
        if ref.discrete:
            lo = 0
            hi = int(min(upper, 30000))
            step = 1 if hi <= 4000 else int(hi / 4000) + 1
            total = 0.0
            mean = 0.0
            bad = 0
            for k in range(lo, hi + 1):
                p = dist.prob_mw(k)
                res["states"] += 1
                p = float(p)
                if not math.isfinite(p) or p < 0:
                    viol(res, f"C11|negative-or-nan|{fam}", f"{text}: prob_mw({k}) = {p}", {"text": text})
                    break
                total += p
                mean += k * p
                if k % step == 0 and bad < 3:
                    tol = 1e-9 + 1e-6 * ref.point(k)
                    if not cmp(f"C11|point-probability|{fam}", f"prob_mw({k})", p, ref.point(k), tol):
                        bad += 1
            cmp(f"C11|not-normalised|{fam}", f"sum of prob_mw over the support 0..{hi}", total, 1.0, 1e-6)
            cmp(f"C11|mean|{fam}", "mean of the law", mean, ref.mean, 1e-4 * max(1, abs(ref.mean)) + (0.5 if fam == "schulz_zimm" else 0))
        else:
            lo = ref.d.ppf(1e-9) if fam != "uniform" else ref.lo - 5
            hi = upper if fam != "uniform" else ref.hi + 5
            n = 2000
            if fam == "uniform":
                # piecewise: outside, inside, outside (the density jumps at the ends; no trapezoid across a jump)
                eps = 1e-9
                xs = [lo + (ref.lo - eps - lo) * i / 50 for i in range(51)] + [ref.lo + eps + (ref.hi - ref.lo - 2 * eps) * i / n for i in range(n + 1)] + [ref.hi + eps + (hi - ref.hi - eps) * i / 50 for i in range(51)]
            else:
                # grid uniform in probability: fine where the law has mass, whatever its breadth
                xs = sorted(set([float(ref.d.ppf(q)) for q in [1e-9, 1e-7, 1e-5, 1e-4, 1e-3]] + [float(ref.d.ppf((i + 0.5) / n)) for i in range(n)] + [float(ref.d.ppf(1 - q)) for q in [1e-3, 1e-4, 1e-5, 1e-7, 1e-9, 1e-12]]))
            prev = None
            integral = 0.0
            bad = 0
            for x in xs:
                p = float(dist.prob_mw(x))
                res["states"] += 1
                if not math.isfinite(p) or p < 0:
                    viol(res, f"C11|negative-or-nan|{fam}", f"{text}: prob_mw({x}) = {p}", {"text": text})
                    break
                if bad < 3 and not cmp(f"C11|point-probability|{fam}", f"prob_mw({x:.4f})", p, ref.point(x), 1e-9 + 1e-6 * abs(ref.point(x))):
                    bad += 1
                if prev is not None:
                    integral += 0.5 * (p + prev[1]) * (x - prev[0])
                prev = (x, p)
            tol = 1e-6 if fam == "uniform" else 1e-3  # sanity only: the point values above are compared at 1e-6
            cmp(f"C11|not-normalised|{fam}", "trapezoid integral of prob_mw over the support", integral, 1.0, tol)
            cmp(f"C11|cdf-limits|{fam}", "probability of the whole support as an interval", float(dist.prob_mw(interval(float(lo) - 1, float(hi) + 1))), 1.0, 1e-6)
    elif clause == "intervals":
        if fam == "uniform":
            grid = [ref.lo - 3 + (ref.hi - ref.lo + 6) * i / 12 for i in range(13)]
        elif fam == "gauss":
            grid = [ref.d.ppf(q) for q in (1e-6, 0.01, 0.1, 0.25, 0.4, 0.5, 0.6, 0.75, 0.9, 0.99, 1 - 1e-6)]
        else:
            grid = [0.0] + [ref.ppf(q) for q in (0.001, 0.01, 0.1, 0.25, 0.4, 0.5, 0.6, 0.75, 0.9, 0.99, 0.9999)]
        grid = sorted(set(round(float(g), 6) for g in grid))
        if fam in ("flory_schulz", "schulz_zimm", "poisson"):
            # discrete laws: ends that are not integers (the interval holds the point masses between the ends), also far out
            import math as _m2

            grid = sorted(set(grid + [g + 0.5 for g in grid] + [g + 0.044 for g in grid[-3:]] + [float(_m2.floor(g)) for g in grid if g >= 1] + [14.0, 28.0]))
        if fam in ("gauss", "uniform", "log_normal"):
            # continuous laws: also ends with different fractional parts inside one integer bin and in neighbouring bins
            import math as _m

            mid = _m.floor(ref.ppf(0.5) if fam != "uniform" else (ref.lo + ref.hi) / 2)
            fine = [mid + x for x in (0.053, 0.25, 0.453, 0.9, 1.2, 1.75, 3.0)]
            grid = sorted(set(grid + fine))
        nbad = 0
        for i, a in enumerate(grid):
            for b in grid[i + 1 :]:
                res["states"] += 1
                st, got = run_limited(lambda: float(dist.prob_mw(interval(a, b))), (), 60)
                if st != "ok":
                    viol(res, f"C11|interval-raises|{fam}|{got if st == 'exc' else st}".split("(")[0], f"{text}: prob_mw(interval({a}, {b})) {st}: {got}", {"text": text})
                    nbad += 1
                    break
                exp = ref.cdf(b) - ref.cdf(a)
                tol = 1e-6 + (ref.point(a) + ref.point(b) + 1e-3 * 0 if fam == "schulz_zimm" else 0)
                lower0 = "lower-end-0" if a == 0 else "inner"
                if fam == "schulz_zimm" and abs(got - exp) > tol and abs(got - (dsz.cdf(b) - dsz.cdf(a))) < 1e-9:
                    lower0 = "discretised-density"
                if nbad < 4 and not cmp(f"C11|interval-probability|{fam}|{lower0}", f"prob_mw(interval({a}, {b}])", got, exp, tol):
                    nbad += 1
            if nbad >= 4:
                break
        # additivity over adjacent intervals
        for i in range(len(grid) - 2):
            a, b, c = grid[i], grid[i + 1], grid[i + 2]
            try:
                s = float(dist.prob_mw(interval(a, b))) + float(dist.prob_mw(interval(b, c)))
                cmp(f"C11|interval-additivity|{fam}", f"P({a},{b}] + P({b},{c}] vs P({a},{c}]", s, float(dist.prob_mw(interval(a, c))), 1e-9)
            except Exception:  # noqa
                pass
    elif clause == "draws":
        J = 100 if tier == "quick" else 1000
        us = [(j + 0.5) / J for j in range(J)] + [1e-9, 1e-6, 1 - 1e-4, 1 - 1e-6]
        us = sorted(us)
        prev_t = None
        fails = {}
        for u in us:
            res["states"] += 1
            rng = ScriptedGenerator([], menu=(u,))
            st, t = run_limited(lambda: float(dist.draw_mw(rng)), (), 20)
            res["transitions"] += 1
            res["traces"] += 1
            if st != "ok":
                # running out of time or out of memory are the same observation: the draw does not terminate
                key = f"C11|draw-{'raises' if st == 'exc' else 'does-not-terminate'}|{fam}|{(t or '').split('(')[0]}"
                fails.setdefault(key, []).append(u)
                continue
            # what did the law ask the generator for?
            pts = [p for p in rng.points if p.kind != "choice"]
            if len(pts) != 1:
                viol(res, f"C11|draw-requests|{fam}", f"{text}: one draw made {len(pts)} generator requests", {"text": text})
                continue
            pt = pts[0]
            if fam == "gauss" and pt.kind != "standard_normal" and not (pt.kind == "normal"):
                viol(res, f"C11|draw-seam|{fam}", f"{text}: draw asked the generator for {pt.kind}", {"text": text})
            if fam == "poisson":
                if pt.kind != "poisson" or abs(pt.info["lam"] - par[0]) > 1e-9:
                    viol(res, f"C11|draw-seam|{fam}", f"{text}: draw asked the generator for {pt.kind} {pt.info}", {"text": text})
            if not math.isfinite(t):
                viol(res, f"C11|draw-not-finite|{fam}", f"{text}: draw at quantile {u} = {t}", {"text": text})
                continue
            if t < ref.lo - 1e-9 or t > ref.hi + 1e-9:
                viol(res, f"C11|draw-outside-support|{fam}", f"{text}: draw at quantile {u} = {t}, support [{ref.lo}, {ref.hi}]", {"text": text})
            if prev_t is not None and t < prev_t - 1e-9:
                viol(res, f"C11|draw-not-monotone|{fam}", f"{text}: draw at quantile {u} = {t} < {prev_t} at the previous quantile", {"text": text})
            prev_t = t
            # inverts the same cdf
            if ref.discrete and fam != "schulz_zimm":
                ok = ref.cdf(t - 1) < u + 1e-9 and u <= ref.cdf(t) + 1e-9 and abs(t - round(t)) < 1e-9
            elif fam == "schulz_zimm":
                # integer masses: within one unit of the continuous inverse, or within 1.5 density units in probability
                ok = abs(t - ref.ppf(u)) <= 1.0 + 1e-6 * ref.ppf(u) or abs(ref.cdf(t) - u) <= 1.5 * ref.point(t) + 1e-7
            else:
                ok = abs(ref.cdf(t) - u) <= 1e-6 or abs(t - ref.ppf(u)) <= 1e-6 * max(1.0, abs(t))
            if not ok:
                cls = ""
                if fam == "schulz_zimm" and dsz.ppf(u) == t:
                    cls = "|discretised-density"
                viol(res, f"C11|draw-does-not-invert-cdf|{fam}{cls}", f"{text}: draw at quantile {u} = {t}; the documented law has F({t}) = {ref.cdf(t)} and inverse {ref.ppf(u)}", {"text": text})
        for key, lst in fails.items():
            viol(res, key, f"{text}: draw_mw fails at {len(lst)} of {len(us)} grid quantiles, e.g. u = {lst[:6]}", {"text": text, "quantiles": lst[:50]})
    elif clause == "coexistence":
        other = tuple(data["other"])

        def snapshot(dd):
            pts = [ref.ppf(q) for q in (0.1, 0.5, 0.9)]
            out = [str(dd)]
            for x in pts:
                out.append(round(float(dd.prob_mw(x)), 15))
            out.append(round(float(dd.prob_mw(interval(pts[0], pts[2]))), 15))
            for u in (0.3, 0.7):
                st_, t_ = run_limited(lambda: float(dd.draw_mw(ScriptedGenerator([], menu=(u,)))), (), 20)
                out.append((st_, round(t_, 9) if st_ == "ok" else None))
            return out

        before = snapshot(dist)
        st, d2 = run_limited(lambda: get_distribution(dist_text(fam, other)), (), 10)
        res["states"] += 2
        res["transitions"] += 2
        res["traces"] += 2
        if st == "ok":
            d2.prob_mw(Ref(fam, other).ppf(0.5))
            run_limited(lambda: float(d2.draw_mw(ScriptedGenerator([], menu=(0.5,)))), (), 20)
            after = snapshot(dist)
            if after != before:
                viol(res, f"C11|changed-by-another-object|{fam}", f"{text}: after constructing and using {dist_text(fam, other)} the first object answers {after} instead of {before}", {"text": text, "other": dist_text(fam, other)})
            d3 = get_distribution(text)
            if snapshot(d3) != before:
                viol(res, f"C11|depends-on-earlier-objects|{fam}", f"{text}: a second object with the same text answers differently after {dist_text(fam, other)} was used", {"text": text})
    elif clause == "text":
        # str reproduces the parameters and re-parses to the same law
        s = str(dist)
        res["states"] += 1
        res["transitions"] += 2
        res["traces"] += 1
        import re

        m = re.match(r"^\|(\w+)\((.*)\)\|$", s)
        if not m or m.group(1) != fam:
            viol(res, f"C11|text-form|{fam}", f"{text}: str() = {s!r}", {"text": text})
        else:
            nums = [float(x) for x in m.group(2).split(",")]
            exp = [float(int(x)) if fam == "uniform" else float(x) for x in par]
            if len(nums) != len(exp) or any(abs(a - b) > 1e-9 * max(1, abs(b)) for a, b in zip(nums, exp)):
                viol(res, f"C11|text-parameters|{fam}", f"{text}: str() = {s!r} does not reproduce the parameters", {"text": text})
            st, d2 = run_limited(lambda: get_distribution(s), (), 10)
            if st != "ok" or str(d2) != s:
                viol(res, f"C11|text-reparse|{fam}", f"{text}: str() = {s!r} does not re-parse to itself", {"text": text})
            if dist.generate_string(False) != "":
                viol(res, f"C11|text-noext|{fam}", f"{text}: generate_string(False) = {dist.generate_string(False)!r}", {"text": text})
        # every number syntax
        for form in [", ".join(repr(x) for x in par), ",".join(str(x) for x in par), " , ".join(f"{float(x):e}" for x in par)]:
            t2 = f"{fam}({form})"
            if fam == "uniform" and "e" in form:
                continue
            st, d3 = run_limited(lambda: get_distribution(t2), (), 10)
            res["transitions"] += 1
            if st != "ok":
                viol(res, f"C11|text-syntax|{fam}", f"{t2!r} is rejected: {d3}", {"text": t2})
            elif str(d3) != s:
                viol(res, f"C11|text-syntax|{fam}", f"{t2!r} parses to {str(d3)!r}, {text!r} to {s!r}", {"text": t2})
    res["evals"] = res["traces"]
    res["nontrivial"] = [tag, clause]
    res["outcomes"] = [f"{fam}:{clause}"]
    res["sample"] = {"law": text, "clause": clause, "points": res["states"]}
    return res
