"""C10 - generation is a pure, reproducible function of string and supplied generator.

Explicit-state search over operation histories on real objects.  Objects: two instances parsed from each of the tier's
strings.  Operations: parse another instance, seeded generation, generation on the library's global generator, printing,
.elements / gen_mirror() followed by MUTATION of the returned copies, reaction graph, stochastic atom graph (+ atom-graph
generation), force-field typing, ensemble probability, full iteration of a System built from the string, .generable.
A state is the structural fingerprint of every live library object plus the module-level state (class-level descriptor
list, force-field cache); the invariant - seeded generation gives the baseline molecule computed in a SEPARATE FRESH
PROCESS, printed forms, generability, reaction graph and stochastic atom graph are unchanged - is evaluated after every
operation of every history.  The fingerprint only distinguishes states for the search; an internal change without any
observable effect (a harmless cache) is counted in the evidence, not reported.  All histories up to the tier's depth are run (no merging), and a breadth-first search with
state merging goes deeper.
"""
import itertools
import json
import os
import subprocess
import sys

from ..common import REPO, VERIF, HarnessError, new_result, viol

ANCHORS = ["src/gbigsmiles/core.py", "src/gbigsmiles/mol_gen.py", "src/gbigsmiles/stochastic.py", "src/gbigsmiles/molecule.py", "src/gbigsmiles/system.py", "src/gbigsmiles/mixture.py", "src/gbigsmiles/forcefield_helper.py", "src/gbigsmiles/graph_generate.py"]
LEVEL_RULE = (
    "all operation histories up to a depth over an alphabet of ~14 operations x 2 object instances (no merging), plus breadth-first search with structural state "
    "merging to a larger depth: state = fingerprint of all live objects and module globals, transition = one real API call, invariant evaluated in every state "
    "against a baseline from a separate fresh process; trace = one history; non-trivial = distinct (string, first operations) cases"
)
ASSUMPTIONS = [
    "the state of the library's global generator is reset before every history and is deliberately NOT part of the merge key (it changes with every unseeded call); the invariant is evaluated after every operation regardless of merging",
    "module-level state outside the three force-field globals, the class-level descriptor list and the global generator would survive the per-history reset; it would then show up in a later history of the same worker",
    "baselines come from one fresh interpreter per check run (not from the worker that explores)",
]
BOUNDS = {"quick": "4 strings, all histories of depth 2 (16 ops x 2 instances), merged BFS to depth 3 for three of them", "thorough": "6 strings, all histories of depth 3 for two of them (rotated by seed) and depth 2 for the others, merged BFS to depth 5"}
CASE_TIMEOUT = {"quick": 900, "thorough": 6000}

STRINGS = [
    "N{[>|3|][<]CC[>], [<|2|]CO[>][<]}|schulz_zimm(150, 120)|S{[>][<]CS[>]; [<]Cl[<]}|schulz_zimm(90, 70)|F",
    "{[][$]CC([$])C=O, [$|0.5|]CC([$])CO; [$][H], [$]O[]}|uniform(50, 150)|",
    "OC{[>|3 0 1 0|][<]CC([>|2|])C(=O)OC, [<]CC[>][<]}|gauss(60, 90)|[H]",
    "C=[$]{[$][$]=CC=[$]; [$]=C, [$]=O[]}|uniform(20, 90)|",
    "CC{[$][$]CC[$][$]}|uniform(12, 72)|COOC{[$][$]C[$][$]}|uniform(12, 72)|CO",
    "[H]{[>][<]CC([>])c1ccccc1[<]}|poisson(300)|CC{[>][<]CC([>])C(=O)OC[<]}|log_normal(200, 1.2)|C",
    # listed transitions that reach an end group during growth (growth and capping share one descriptor numbering)
    "{[][$|4 4 1|]CC(C)[$|4 4 1|]; [$]O[]}|uniform(150, 250)|",
]
# sibling strings: same fragments (identical fragment SMILES text), same descriptor texts, but descriptors on other atoms /
# other weights: objects that a cache keyed too coarsely would confuse with the main string's tokens
SIBLINGS = {
    STRINGS[0]: "N{[>|3|][<]C([>])C, [<|2|]C([>])O[<]}|schulz_zimm(150, 120)|S{[>][<]C([>])S; [<]Cl[<]}|schulz_zimm(90, 70)|F",
    STRINGS[1]: "{[][$]CCC([$])=O, [$|0.5|]CCC([$])O; [$][H], [$]O[]}|uniform(50, 150)|",
    STRINGS[2]: "OC{[>|3 0 1 0|][<]CCC(=O)OC[>|2|], [<]C([>])C[<]}|gauss(60, 90)|[H]",
    STRINGS[3]: "C=[$]{[$][$]=CCC=[$]; [$]=C, [$]=O[]}|uniform(20, 90)|",
    STRINGS[4]: "CC{[$][$]C([$])C[$]}|uniform(12, 72)|COOC{[$][$]C[$][$]}|uniform(12, 72)|CO",
    STRINGS[5]: "[H]{[>][<]CCc1ccccc1[>][<]}|poisson(300)|CC{[>][<]CCC(=O)OC[>][<]}|log_normal(200, 1.2)|C",
    STRINGS[6]: "{[][$|4 4 1|]CCC[$|4 4 1|]; [$]O[]}|uniform(150, 250)|",
}
OPS = ["P", "G1", "G2", "GG", "S", "E", "M", "MM", "MS", "RG", "SG", "AG", "FF", "EP", "SY", "GB"]
SEEDS = (1, 2, 4, 5)  # seeds 4 and 5 give a negative first gaussian draw for the wide law of the third string

_BASELINE_CODE = r"""
import sys, json, warnings
warnings.simplefilter("ignore")
sys.path.insert(0, sys.argv[1])
import numpy as np
import gbigsmiles
from rdkit import RDLogger
RDLogger.DisableLog("rdApp.*")
def graph_sigs(m):
    import hashlib
    sig = {}
    try:
        G = m.gen_reaction_graph()
        lab = lambda n: (type(n).__name__, n.generate_string(True), getattr(n, "res_id", None), getattr(n, "descriptor_num", None))
        edges = sorted((str(lab(a)), str(lab(b)), str(sorted((k, round(float(v), 9)) for k, v in d.items()))) for a, b, d in G.edges(data=True))
        sig["reaction"] = hashlib.sha256(repr(edges).encode()).hexdigest()[:16]
    except Exception as e:
        sig["reaction"] = "raises:" + type(e).__name__
    try:
        A = m.gen_stochastic_atom_graph(expect_schulz_zimm_distribution=False).graph
        edges = sorted((int(a), int(b), str(sorted((k, round(float(v), 9)) for k, v in d.items()))) for a, b, d in A.edges(data=True))
        nodes = sorted((int(n), str(sorted((k, str(v)) for k, v in d.items()))) for n, d in A.nodes(data=True))
        sig["atomgraph"] = hashlib.sha256(repr((nodes, edges)).encode()).hexdigest()[:16]
    except Exception as e:
        sig["atomgraph"] = "raises:" + type(e).__name__
    return sig

out = {}
for s in json.loads(sys.argv[2]):
    m = gbigsmiles.Molecule(s)
    rec = {"str": str(m), "noext": m.generate_string(False), "generable": bool(m.generable), "gen": {}, "graphs": graph_sigs(gbigsmiles.Molecule(s))}
    # the library's global generator is put into a KNOWN state that differs from the one the exploring workers use:
    # an output that secretly depends on it differs deterministically
    from gbigsmiles import core
    core._GLOBAL_RNG.bit_generator.state = np.random.PCG64(999).state
    for seed in (1, 2, 4, 5):
        m = gbigsmiles.Molecule(s)  # a fresh parse for every seed: the baseline has no history at all
        mg = m.generate(rng=np.random.default_rng(seed))
        rec["gen"][str(seed)] = [mg.smiles, round(float(mg.weight), 6)]
    # the mirror image of a never-used object (what gen_mirror() of any instance must behave like)
    try:
        mm = gbigsmiles.Molecule(s).gen_mirror()
        mrec = {"str": str(mm), "noext": mm.generate_string(False), "generable": bool(mm.generable), "gen": {}, "graphs": {}}
        for seed in (1, 2, 4, 5):
            try:
                mg = gbigsmiles.Molecule(s).gen_mirror().generate(rng=np.random.default_rng(seed))
                mrec["gen"][str(seed)] = [mg.smiles, round(float(mg.weight), 6)]
            except Exception as e:
                mrec["gen"][str(seed)] = ["raises:" + type(e).__name__, 0.0]
        rec["mirror"] = mrec
    except Exception as e:
        rec["mirror"] = None
    out[s] = rec
print(json.dumps(out))
"""


def baselines(strings):
    """one SEPARATE fresh interpreter per string: a baseline never shares a process with any other string"""
    env = dict(os.environ)
    env["PYTHONHASHSEED"] = "0"
    procs = []
    for s in strings:
        procs.append((s, subprocess.Popen([sys.executable, "-c", _BASELINE_CODE, os.path.join(REPO, "src"), json.dumps([s])], stdout=subprocess.PIPE, stderr=subprocess.PIPE, text=True, env=env)))
    out = {}
    for s, p in procs:
        so, se = p.communicate(timeout=900)
        if p.returncode != 0:
            raise HarnessError("baseline process failed: " + se[-500:])
        out.update(json.loads(so.strip().splitlines()[-1]))
    return out


def enumerate_cases(tier, seed):
    n = 4 if tier == "quick" else 7
    strings = STRINGS[:n]
    k = seed % len(strings)
    strings = strings[k:] + strings[:k]
    base = baselines(strings + [SIBLINGS[s] for s in strings])
    # the merged searches are the longest single cases: they go first so that they run beside the history cases
    for si, s in enumerate(strings):
        if tier == "quick" and s == STRINGS[0]:
            continue  # its histories cost several times the others' (two Schulz-Zimm blocks): depth-3 search in thorough only
        yield ("bfs", {"s": s, "depth": 3 if tier == "quick" else 5, "base": base[s], "sib": SIBLINGS[s], "sib_base": base[SIBLINGS[s]]})
    for si, s in enumerate(strings):
        depth = 3 if (tier == "thorough" and si < 2) else 2
        for first in OPS:
            for inst in (0, 1):
                yield ("histories", {"s": s, "first": [first, inst], "depth": depth, "base": base[s], "sib": SIBLINGS[s], "sib_base": base[SIBLINGS[s]]})


# ---------------------------------------------------------------------------------------------- fingerprint


def fp(o, depth=0, seen=None):
    import numpy as np

    if seen is None:
        seen = set()
    if depth > 12:
        return "<deep>"
    if o is None or isinstance(o, (bool, int, str)):
        return o
    if isinstance(o, float):
        return "nan" if o != o else round(o, 12)
    if isinstance(o, np.ndarray):
        return ("nd",) + tuple("nan" if float(x) != float(x) else round(float(x), 12) for x in o.reshape(-1)) if o.dtype.kind in "fiub" else ("nd", str(o.dtype), o.size)
    if isinstance(o, (np.floating, np.integer)):
        return "nan" if float(o) != float(o) else round(float(o), 12)
    if isinstance(o, (list, tuple)):
        return (type(o).__name__,) + tuple(fp(x, depth + 1, seen) for x in o)
    if isinstance(o, dict):
        return ("dict",) + tuple(sorted((str(k), fp(v, depth + 1, seen)) for k, v in o.items()))
    mod = type(o).__module__ or ""
    if mod.startswith("rdkit"):
        try:
            return ("rd", int(o))
        except Exception:  # noqa
            return ("rd", type(o).__name__)
    if mod.startswith("scipy"):
        args = getattr(o, "args", None)
        kwds = getattr(o, "kwds", None)
        return ("scipy", type(o).__name__, fp(args, depth + 1, seen), fp(kwds, depth + 1, seen))
    if mod.startswith("gbigsmiles"):
        if id(o) in seen:
            return ("cycle", type(o).__name__)
        seen = seen | {id(o)}
        d = getattr(o, "__dict__", {})
        return (type(o).__name__,) + tuple((k, fp(v, depth + 1, seen)) for k, v in sorted(d.items()))
    return ("obj", type(o).__name__)


def _graph_sigs(m):
    import hashlib

    sig = {}
    try:
        G = m.gen_reaction_graph()

        def lab(n):
            return (type(n).__name__, n.generate_string(True), getattr(n, "res_id", None), getattr(n, "descriptor_num", None))

        edges = sorted((str(lab(a)), str(lab(b)), str(sorted((k, round(float(v), 9)) for k, v in d.items()))) for a, b, d in G.edges(data=True))
        sig["reaction"] = hashlib.sha256(repr(edges).encode()).hexdigest()[:16]
    except Exception as e:  # noqa
        sig["reaction"] = "raises:" + type(e).__name__
    try:
        A = m.gen_stochastic_atom_graph(expect_schulz_zimm_distribution=False).graph
        edges = sorted((int(a), int(b), str(sorted((k, round(float(v), 9)) for k, v in d.items()))) for a, b, d in A.edges(data=True))
        nodes = sorted((int(n), str(sorted((k, str(v)) for k, v in d.items()))) for n, d in A.nodes(data=True))
        sig["atomgraph"] = hashlib.sha256(repr((nodes, edges)).encode()).hexdigest()[:16]
    except Exception as e:  # noqa
        sig["atomgraph"] = "raises:" + type(e).__name__
    return sig


def global_fp():
    from gbigsmiles import forcefield_helper as fh
    from gbigsmiles.core import BigSMILESbase

    return (tuple(fp(x) for x in BigSMILESbase.bond_descriptors), fh._global_nonbonded_itp_file, fh._global_smarts_rule_file)


def reset_globals():
    import numpy as np
    from gbigsmiles import core
    from gbigsmiles import forcefield_helper as fh

    core._GLOBAL_RNG.bit_generator.state = np.random.PCG64(20240607).state
    fh._global_assignment_class = None
    fh._global_nonbonded_itp_file = None
    fh._global_smarts_rule_file = None


# ---------------------------------------------------------------------------------------------- operations


def apply_op(op, objs, inst, s):
    """run one operation of the alphabet on objs[inst]; may append a new object"""
    import gbigsmiles
    import numpy as np

    o = objs[inst % len(objs)]
    if op == "P":
        objs.append(gbigsmiles.Molecule(s))
    elif op in ("G1", "G2"):
        o.generate(rng=np.random.default_rng(int(op[1]) + 10)).smiles
    elif op == "GG":
        o.generate().smiles
    elif op == "S":
        str(o)
        o.generate_string(False)
    elif op == "E":
        els = o.elements
        for e in els:
            for bd in getattr(e, "bond_descriptors", []):
                bd.weight = 99.0
                bd.transitions = None
                bd.atom_bonding_to = 0
                bd.descriptor = "$"
            if hasattr(e, "repeat_tokens") and e.repeat_tokens:
                e.repeat_tokens[0].bond_descriptors.clear()
                e.repeat_tokens.pop()
                e.left_terminal.weight = 7.0
                e.distribution = None
            if hasattr(e, "atoms"):
                e.atoms.clear()
        els.clear()
        for r in o.residues[:1]:
            pass
    elif op == "M":
        m = o.gen_mirror()
        if m is not None:
            for e in m._elements:
                for bd in getattr(e, "bond_descriptors", []):
                    bd.weight = 0.25
                if hasattr(e, "right_terminal"):
                    e.right_terminal.weight = 5.0
                    e.left_terminal.transitions = None
            try:
                str(m)
            except Exception:  # noqa
                pass
    elif op == "MM":
        # a mirror image that stays alive and is used like any other instance (at most two of them)
        if not getattr(o, "_gbmc_mirror", False) and sum(1 for x in objs if getattr(x, "_gbmc_mirror", False)) < 2:
            m = o.gen_mirror()
            if m is not None:
                m._gbmc_mirror = True
                if getattr(o, "_gbmc_sibling", False):
                    m._gbmc_sibling = True
                objs.append(m)
    elif op == "MS":
        # a live mirror image of the SIBLING object (a different molecule with the same fragments) - two mirrored molecules
        # then generate in one process
        sibs = [x for x in objs if getattr(x, "_gbmc_sibling", False) and not getattr(x, "_gbmc_mirror", False)]
        if sibs and sum(1 for x in objs if getattr(x, "_gbmc_mirror", False)) < 2:
            m = sibs[0].gen_mirror()
            if m is not None:
                m._gbmc_mirror = True
                m._gbmc_sibling = True
                objs.append(m)
    elif op == "RG":
        try:
            o.gen_reaction_graph()
            o.gen_reaction_graph()
        except Exception:  # noqa
            pass
    elif op == "SG":
        o.gen_stochastic_atom_graph(expect_schulz_zimm_distribution=False)
    elif op == "AG":
        from gbigsmiles.distribution import SchulzZimm
        from gbigsmiles.graph_generate import AtomGraph

        if all(isinstance(e.distribution, SchulzZimm) for e in o.elements if hasattr(e, "distribution")):
            sag = o.gen_stochastic_atom_graph(expect_schulz_zimm_distribution=True)
            for r in (np.random.default_rng(4), None):  # None: unseeded, must not disturb anything
                try:
                    ag = AtomGraph(sag, rng=r)
                    ag.generate()
                except RuntimeError:
                    pass  # Schulz-Zimm draws fail at some quantiles (C11 finding); irrelevant for purity
        else:
            o.gen_stochastic_atom_graph(expect_schulz_zimm_distribution=False)
    elif op == "FF":
        mg = o.generate(rng=np.random.default_rng(3))
        try:
            mg.forcefield_types
        except Exception:  # noqa
            pass
    elif op == "EP":
        from gbigsmiles.mol_prob import get_ensemble_prob

        mg = o.generate(rng=np.random.default_rng(3))
        if mg.mol.GetNumAtoms() <= 14:
            try:
                get_ensemble_prob(mg.smiles, o)
            except Exception:  # noqa
                pass
    elif op == "SY":
        sysobj = gbigsmiles.System(s + ".|250|")
        k = 0
        for mg in sysobj.generator:
            mg.smiles
            k += 1
            if k > 50:
                break
        sysobj.generate(rng=np.random.default_rng(5))
    elif op == "GB":
        o.generable
    else:
        raise HarnessError(op)


def invariant(objs, base, res, hist, s, sib_base=None, with_graphs=True):
    """returns list of (key, what); evaluates seeded generation etc. on every live object"""
    import numpy as np

    out = []
    before = (tuple(fp(o) for o in objs), global_fp())
    for i, o in enumerate(objs):
        mybase = base
        if sib_base is not None and getattr(o, "_gbmc_sibling", False):
            base = sib_base
        is_mirror = getattr(o, "_gbmc_mirror", False)
        if is_mirror:
            if base.get("mirror") is None:
                base = mybase
                continue
            base = base["mirror"]
        try:
            if str(o) != base["str"]:
                out.append(("printed-form-changed", f"str() of instance {i} is {str(o)!r}, baseline {base['str']!r}"))
            if o.generate_string(False) != base["noext"]:
                out.append(("noext-form-changed", f"generate_string(False) of instance {i} changed"))
            if bool(o.generable) != base["generable"]:
                out.append(("generable-changed", f"generable of instance {i} is {o.generable}"))
            gs = _graph_sigs(o) if (with_graphs and i != 1 and not is_mirror) else base["graphs"]
            if gs != base["graphs"]:
                which = [k for k in gs if gs[k] != base["graphs"].get(k)]
                out.append((f"graph-output-changed-{'+'.join(which)}", f"instance {i}: {which} graph differs from the one a fresh parse gives"))
            for seed in SEEDS:
                try:
                    mg = o.generate(rng=np.random.default_rng(seed))
                    got = [mg.smiles, round(float(mg.weight), 6)]
                except Exception as e:  # noqa
                    if not is_mirror:
                        raise
                    got = ["raises:" + type(e).__name__, 0.0]
                if got != base["gen"][str(seed)]:
                    out.append(("seeded-generation-differs", f"instance {i}, seed {seed}: {got[0]} ({got[1]}) instead of {base['gen'][str(seed)][0]} ({base['gen'][str(seed)][1]})"))
        except Exception as e:  # noqa
            out.append((f"invariant-raises-{type(e).__name__}", f"instance {i}: {type(e).__name__}: {str(e)[:80]}"))
        base = mybase
    after = (tuple(fp(o) for o in objs), global_fp())
    if before != after:
        # internal state may legitimately change (a harmless cache); it is a violation only through an observable below,
        # but it makes this state distinct for the search
        res["extra"]["fingerprint_changes_during_invariant"] = res["extra"].get("fingerprint_changes_during_invariant", 0) + 1
    res["transitions"] += 1
    return out, after


def run_history(hist, s, base, res, sib=None, sib_base=None):
    """replay a history on fresh objects; returns (violations, final state key)"""
    import gbigsmiles

    reset_globals()
    objs = [gbigsmiles.Molecule(s), gbigsmiles.Molecule(s)]
    fp0 = fp(objs[0])
    if fp(objs[1]) != fp0:
        return [("two-parses-differ", "two instances parsed from one string have different fingerprints", 0)], None
    fps = None
    if sib is not None:
        so = gbigsmiles.Molecule(sib)
        so._gbmc_sibling = True
        fps = fp(so)
        objs.append(so)
    key = None
    for step, (op, inst) in enumerate(hist):
        try:
            apply_op(op, objs, inst, s)
        except HarnessError:
            raise
        except Exception as e:  # noqa
            return [(f"operation-raises|{op}|{type(e).__name__}", f"{op} on instance {inst} raises {type(e).__name__}: {str(e)[:80]}", step)], None
        # graph outputs are compared once, at the end of the history (they are by far the most expensive observable)
        bad, key = invariant(objs, base, res, hist, s, sib_base, with_graphs=(step == len(hist) - 1))
        if bad:
            return [(k, w, step) for k, w in bad], key
        # every parsed object must still look like a fresh parse
        for i, o in enumerate(objs):
            if getattr(o, "_gbmc_mirror", False):
                continue
            if fp(o) != (fps if getattr(o, "_gbmc_sibling", False) else fp0):
                res["extra"]["objects_differing_from_fresh_parse"] = res["extra"].get("objects_differing_from_fresh_parse", 0) + 1
    return [], key


def eval_case(kind, data):
    res = new_result()
    s, base = data["s"], data["base"]
    states = set()
    if kind == "histories":
        first = tuple(data["first"])
        rest = [list(h) for h in itertools.product([(op, i) for op in OPS for i in (0, 1)], repeat=data["depth"] - 1)]
        n = 0
        for tail in rest:
            hist = [first] + [tuple(x) for x in tail]
            n += 1
            bad, key = run_history(hist, s, base, res, data.get("sib"), data.get("sib_base"))
            res["traces"] += 1
            if key is not None:
                states.add(hash(key))
            for k, w, step in bad:
                last = hist[step][0]
                prev = hist[step - 1][0] if step > 0 else "-"
                viol(res, f"C10|{k}|after={last}", f"{s}: history {[f'{o}@{i}' for o, i in hist[: step + 1]]}: {w}", {"s": s, "hist": [list(h) for h in hist]})
        res["states"] = len(states)
        res["evals"] = n
        res["nontrivial"] = [s, list(first), n]
        res["outcomes"] = [f"{s}:{h}" for h in list(states)[:5]]
        res["sample"] = {"string": s, "first_operation": list(first), "histories": n, "depth": data["depth"]}
        return res
    # merged BFS
    alphabet = [(op, i) for op in OPS for i in (0, 1)]
    frontier = [[]]
    seen = set()
    ntr = 0
    for depth in range(data["depth"]):
        nxt = []
        for hist in frontier:
            for ev in alphabet:
                h2 = hist + [ev]
                bad, key = run_history(h2, s, base, res, data.get("sib"), data.get("sib_base"))
                ntr += 1
                res["traces"] += 1
                for k, w, step in bad:
                    viol(res, f"C10|{k}|after={h2[step][0]}", f"{s}: history {[f'{o}@{i}' for o, i in h2[: step + 1]]}: {w}", {"s": s, "hist": [list(h) for h in h2]})
                if key is None:
                    continue
                hk = hash(key)
                if hk not in seen:
                    seen.add(hk)
                    nxt.append(h2)
        frontier = nxt
        if not frontier:
            break
    res["states"] = len(seen)
    res["evals"] = ntr
    res["nontrivial"] = [s, "bfs", ntr]
    res["outcomes"] = [f"{s}:bfs:{len(seen)}"]
    res["sample"] = {"string": s, "merged_bfs_depth": data["depth"], "distinct_states": len(seen), "histories_run": ntr}
    return res
