"""C07 - a stochastic object stops growing at the first unit that exceeds its drawn mass.

(a) every choice sequence of every bounded archetype instance: per execution and per object the number and masses of the
    units are related to the target actually drawn (tolerance 1e-9; targets are placed off the unit boundaries);
(b) boundary family: for prefix x unit x suffix the cumulative masses a_1..a_4 the LIBRARY computes are calibrated on
    the real objects, and the instance is re-parsed with the zero-width law gauss(<that float>, 0) for targets 1e-7 below
    and above every boundary, plus negative / zero / half-unit targets: the number of units must be min{n >= 1 : a_n > t}.
    Targets exactly at, one ulp below and one ulp above a boundary are used on instances whose atoms all carry the
    isotope label 12C: their cumulative masses are integer-valued floats under any summation order, so '>' versus '>='
    is decided without depending on the last bits of a float sum.
"""
import math

from . import _gen
from ._gen import ANCHORS, ASSUMPTIONS  # noqa
from ..common import new_result, run_limited, viol
from ..instances import PREFIXES, SUFFIXES, UNITS_DIR, UNITS_SYM, rot
from ..scripted import ScriptedGenerator

LEVEL_RULE = (
    "all choice sequences of bounded instances (units per object vs drawn target) + exhaustive boundary menu: targets 1e-7 below / above "
    "each cumulative mass (calibrated on the real objects) for every prefix x unit x suffix of the tier, and exactly at / one ulp around it on exact-arithmetic (12C-labelled) instances; "
    "states = choice points + boundary targets, transitions = generator answers, traces = executions judged"
)
BOUNDS = {"quick": "families core slice; boundary menu for 3 units x 2 prefixes x 2 suffixes x 17 targets", "thorough": "full families; boundary menu for all units x prefixes x suffixes"}
CASE_TIMEOUT = {"quick": 900, "thorough": 3000}


def enumerate_cases(tier, seed):
    yield from _gen.cases(tier, seed, long=True)
    th = tier == "thorough"
    units = rot(UNITS_DIR, seed, 11 if th else 2) + rot(UNITS_SYM[:2], seed, 1)
    for iso in ("[<][13CH2]C[>]", "[<]C([2H])([2H])O[>]", "[<]C[35Cl][>]" if False else "[<]C(Cl)C[>]"):
        if iso not in units:
            units.append(iso)  # isotope labels and elements with several abundant isotopes: always in the boundary menu
    prefixes = rot(PREFIXES, seed, 5 if th else 1)
    suffixes = rot(SUFFIXES, seed, 4 if th else 1) + [None]
    for u in units:
        for p in prefixes:
            for s in suffixes:
                yield ("boundary", {"unit": u, "prefix": p, "suffix": s})
    # exact-arithmetic instances: every atom carries the isotope label 12C (mass exactly 12.0), so every cumulative mass
    # is an integer-valued float under ANY order of summation; only here are targets placed exactly at / one ulp around a
    # boundary (elsewhere the last bits of a cumulative mass depend on the summation order, which the property does not fix)
    # the same boundary question asked of the object gen_mirror() returns (prefix and suffix of different mass change places)
    for u in units[:2]:
        yield ("boundary", {"unit": u, "prefix": "CCCCCCCCCC", "suffix": "O", "mirror": True})
        yield ("boundary", {"unit": u, "prefix": "N", "suffix": "C(C)CC(c1ccccc1)c1ccccc1", "mirror": True})
    for u in EXACT_UNITS:
        for p in ("[12CH3]", "[12CH3][12CH2]"):
            for s in ("[12CH3]", None):
                yield ("boundary", {"unit": u, "prefix": p, "suffix": s, "exact": True})


EXACT_UNITS = ["[<][12CH2][12CH2][>]", "[$][12CH2][12CH2][$]", "[<][12CH2][12CH]([12CH3])[>]"]


def _sym(u):
    return "$" if "$" in u else "<"


def _text(p, u, s, t):
    lt, rt = ("[$]", "[$]") if _sym(u) == "$" else ("[>]", "[<]")
    return f"{p}{{{lt}{u}{rt}}}|gauss({t!r}, 0)|{s or ''}"


def _make(txt, mirror):
    import gbigsmiles

    m = gbigsmiles.Molecule(txt)
    return m.gen_mirror() if mirror else m


def _units_of(mg, utext):
    import gbigsmiles

    ustr = str(gbigsmiles.SmilesToken(utext, 0, 0))
    return sum(1 for n in mg.graph.nodes if mg.graph.nodes[n]["big_smiles"] == ustr)


def eval_case(kind, data):
    if kind == "instance":
        return _gen.evaluate("C07", ("C07",), data)
    import gbigsmiles
    from rdkit.Chem import Descriptors

    res = new_result()
    u, p, s = data["unit"], data["prefix"], data["suffix"]
    fam = f"boundary|{u}"
    from ..refsem import token_ref

    m = token_ref(u).mass
    # calibration: cumulative added masses as the library computes them (no suffix: nothing is capped)
    a = []
    w0 = None
    for k in range(1, 5):
        rng = ScriptedGenerator([])
        mg = gbigsmiles.Molecule(_text(p, u, None, (k - 0.5) * m)).generate(rng=rng)  # calibration always on the molecule as written
        if _units_of(mg, u) != k:
            viol(res, f"C07|calibration|{fam}", f"{_text(p, u, None, (k - 0.5) * m)} produced {_units_of(mg, u)} units, expected {k}", None)
            return res
        if w0 is None:
            w0 = Descriptors.HeavyAtomMolWt(gbigsmiles.Molecule(_text(p, u, None, 1.0)).elements[0].generate().mol)
        a.append(Descriptors.HeavyAtomMolWt(mg.mol) - w0)
    targets = [-7.5, -0.0, 0.0, 0.5 * m]
    exact = bool(data.get("exact"))
    if exact and any(x != round(x) for x in a):
        viol(res, f"C07|calibration|{fam}", f"isotope-labelled instance: cumulative masses {a} are not integers", None)
        return res
    for k in range(3):
        targets += [a[k] - 1e-7, a[k] + 1e-7]
        if exact:
            targets += [math.nextafter(a[k], -math.inf), a[k], math.nextafter(a[k], math.inf)]
    n_exec = 0
    outcomes = set()
    for t in targets:
        exp = next(n for n in range(1, 6) if n > len(a) or a[n - 1] > t)
        txt = _text(p, u, s, t)
        rng = ScriptedGenerator([])
        st, mg = run_limited(lambda: _make(txt, bool(data.get("mirror"))).generate(rng=rng), (), 30)
        if st == "ok":
            got = _units_of(mg, u)
        elif st in ("timeout", "memory"):
            got = "generation does not terminate (no result after 30 s):"
        else:
            got = str(mg).split("(")[0]
        n_exec += 1
        if any(pt.kind != "choice" for pt in rng.points):
            viol(res, f"C07|zero-width-draw|{fam}", f"{txt}: zero width law consulted the generator", None)
        outcomes.add(f"{fam}:{got}")
        if got != exp:
            rel = "at" if t in a else "below" if any(t == math.nextafter(x, -math.inf) for x in a) else "above" if any(t == math.nextafter(x, math.inf) for x in a) else "off"
            viol(res, f"C07|boundary-{rel}|{'sym' if _sym(u) == '$' else 'dir'}|suffix={'yes' if s else 'no'}{'|mirror' if data.get('mirror') else ''}", f"{txt}{' [the object returned by gen_mirror()]' if data.get('mirror') else ''}: {got} units, expected {exp} (cumulative masses {a})", {"text": txt})
    res["states"] = len(targets)
    res["transitions"] = n_exec
    res["traces"] = n_exec
    res["evals"] = n_exec
    res["nontrivial"] = [u, p, s]
    res["outcomes"] = sorted(outcomes)
    res["sample"] = {"boundary_instance": _text(p, u, s, a[1]), "cumulative_masses": a, "targets": len(targets)}
    return res
