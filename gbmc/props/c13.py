"""C13 - ensemble generation yields complete member molecules up to the system mass.

The scripted generator is bound into System.generator (a property whose rng is a default argument) and every sequence of
component picks and inner generation choices of bounded systems is enumerated on the real code.  Per execution: every
yielded molecule is fully generated and is an outcome (reference model) of exactly one declared component; iteration stops
exactly at the first molecule that brings the accumulated heavy-atom mass to the system mass.  Non-generable systems of the
C12 enumeration must refuse, from .generator and from .generate().
"""
from .. import refsem as R
from ..common import HarnessError, new_result, run_limited, viol
from ..scripted import ScriptedGenerator, explore
from . import c12

ANCHORS = ["src/gbigsmiles/system.py"]
LEVEL_RULE = (
    "all sequences of component picks and inner choices (scripted generator bound into System.generator) of bounded systems; state = one choice point, "
    "transition = one generator answer, trace = one complete ensemble generation judged; plus every non-generable configuration of the C12 enumeration; "
    "non-trivial = distinct systems / configurations"
)
ASSUMPTIONS = [
    "membership of a yielded molecule is decided by canonical SMILES against the reference model's outcome set of each component (components are distinguishable by construction)",
    "the exact system mass comes from the reference MixtureModel (C12)",
]
BOUNDS = {"quick": "6 systems of 1-4 components, system mass 2-5 x heaviest member, <= 4000 executions each", "thorough": "14 systems, <= 20000 executions each (complete below the cap up to the reported deviation bound)"}
CASE_TIMEOUT = {"quick": 400, "thorough": 3000}
MAX_EXEC = {"quick": 4000, "thorough": 20000}

T, S = R.tok, R.sto


def g0(x):
    return f"gauss({x!r}, 0)"


def systems(tier):
    """(name, [(molspec, mixture text)], external mass)"""
    A = {"elements": [T("OCC")], "mixture": None}
    B = {"elements": [T("NCCCF")], "mixture": None}
    H = {"elements": [T("N"), S("[>]", ["[<]CC[>]"], [], "[<]", g0(40.0)), T("F")], "mixture": None}
    Rn = {"elements": [T("Cl"), S("[>]", ["[<]CC[>]", "[<]CO[>]"], [], "[<]", g0(30.0)), T("Br")], "mixture": None}
    E = {"elements": [S("[]", ["[$]CS[$]"], ["[$]I", "[$|2|][H]"], "[]", g0(50.0))], "mixture": None}
    Sv = {"elements": [T("c1ccccc1")], "mixture": None}
    out = [
        ("two-tokens", [(A, "60%"), (B, "100")], None),
        ("single", [(A, "150")], None),
        ("token-homopolymer", [(A, "30%"), (H, "210")], None),
        ("three", [(A, "25%"), (B, "25%"), (H, "150")], None),
        ("copolymer", [(Rn, "50%"), (A, "120")], None),
        ("external-total", [(A, "40%"), (Sv, None)], 300.0),
        ("explicit-hydrogen-caps", [({"elements": [T("[H]"), S("[$]", ["[$]CC[$]"], [], "[$]", g0(11.0)), T("[H]")], "mixture": None}, "50")], None),
        ("explicit-hydrogen-two", [({"elements": [T("[H]"), S("[>]", ["[<]CO[>]"], [], "[<]", g0(40.0)), T("[H]")], "mixture": None}, "50%"), (A, "57")], None),
    ]
    # the accumulated mass hits the system mass exactly: stop, do not add one more.  All atoms carry the isotope label 12C
    # (mass exactly 12.0), so every accumulated mass is an integer-valued float under any order of summation.
    X1 = {"elements": [T("[12CH4]")], "mixture": None}
    X2 = {"elements": [T("[12CH3][12CH3]")], "mixture": None}
    out.append(("exact-hit", [(X1, "36.0")], None))
    out.append(("exact-hit-two", [(X2, "50%"), (X1, "30.0")], None))
    if tier == "thorough":
        out += [
            ("four-tokens", [(A, "10%"), (B, "20%"), (Sv, "30%"), ({"elements": [T("CCCCO")], "mixture": None}, "160")], None),
            ("endstart", [(E, "50%"), (A, "160")], None),
            ("two-polymers", [(H, "50%"), (Rn, "200")], None),
            ("all-absolute", [(A, "100"), (B, "150")], None),
            ("heavy-light", [({"elements": [T("C")], "mixture": None}, "50%"), (H, "170")], None),
            ("three-polymer", [(A, "20%"), (Rn, "30%"), (H, "220")], None),
        ]
    return out


def heavy_mass(smiles):
    """heavy-atom mass of a yielded molecule, measured independently of MolGen.weight"""
    from rdkit import Chem
    from rdkit.Chem import Descriptors

    return float(Descriptors.HeavyAtomMolWt(Chem.MolFromSmiles(smiles)))


def member_form(smiles):
    """canonical SMILES for the membership test; the hydrogen count written inside a bracket atom (isotope label or
    charge) is not compared - the reference model does not carry it (same convention as the generation checks)"""
    from rdkit import Chem

    m = Chem.MolFromSmiles(smiles)
    for a in m.GetAtoms():
        if a.GetIsotope() or a.GetFormalCharge():
            R.forget_bracket_hydrogens(a)
    return Chem.MolToSmiles(m)


def sys_text(comps):
    s = ""
    for spec, mix in comps:
        s += R.print_spec(spec)
        if mix is not None:
            s += f".|{mix}|"
    return s


def enumerate_cases(tier, seed):
    for name, comps, ext in systems(tier):
        yield ("system", {"name": name, "comps": comps, "ext": ext, "tier": tier})
    # two (three) live iterators on ONE System object: every interleaving of their next() calls
    for name, comps, ext in systems(tier):
        yield ("interleave", {"name": name, "comps": comps, "ext": ext, "tier": tier, "iters": 2})
    yield ("interleave", {"name": "two-tokens", "comps": systems(tier)[0][1], "ext": None, "tier": tier, "iters": 3})
    # several System objects built from the same text with different externally supplied totals, in every order
    yield ("ext-history", {"text": "OCC.|40%|c1ccccc1", "exts": [120.0, 400.0, None]})
    yield ("ext-history", {"text": "OCC.|25%|NCCCF.|25%|CCO", "exts": [150.0, None, 333.0]})
    cfgs = list(c12.configs("quick"))
    step = 400
    for lo in range(0, len(cfgs), step):
        yield ("refusal", {"cfgs": cfgs[lo : lo + step]})
    # a component that can never be completed (its last token keeps an open descriptor): whatever the system does on a path
    # that picks it (raise), it must never YIELD / RETURN a molecule that is not fully generated
    for text, ext in [
        ("CCS.|40%|N{[$][$]CC[$][$]}|gauss(40.0, 0)|[$]C(=O)[$].|400|", None),
        ("N{[$][$]CC[$][$]}|gauss(40.0, 0)|[$]C(=O)[$].|60%|CCS.|300|", None),
        ("CC[$].|50%|CCO.|200|", None),
        ("CCO.|30%|{[][<]CC[>]; [>]N[<]}|gauss(40.0, 0)|.|70%|", 500.0),
        ("CCO.|30%|CC{[$][$]CC([$])[$]; [$][H][$]}|gauss(60.0, 0)|.|70%|", 500.0),
    ]:
        yield ("open-component", {"text": text, "ext": ext})
    # a component whose molecules the toolkit cannot sanitise (nitrile written nitrogen-first as suffix): they are still
    # instances of that component; the stop rule counts what is YIELDED
    yield ("odd-chemistry", {"text": "CCO.|50%|C{[$][$]CC[$][$]}|gauss(30.0, 0)|N#C.|200|", "ext": None, "smass": 400.0})
    yield ("odd-chemistry", {"text": "C{[$][$]CC[$][$]}|gauss(30.0, 0)|N#C.|300|", "ext": None, "smass": 300.0})
    # masses fully specified, but one COMPONENT is not generable (no distribution / negative weight / open end): the
    # system must refuse on every random path, whichever component the pick lands on
    bad = ["{[][$]CC[$]; [$][H][]}", "OC{[>][<]CC[>][<]}CBr", "N{[$][$|-1|]CC[$][$]}|gauss(40, 0)|F"]
    good = ["CCO", "NCCCF", "N{[>][<]CC[>][<]}|gauss(40.0, 0)|F"]
    k = 0
    for b in bad:
        for g1 in good:
            for g2 in (None, good[(good.index(g1) + 1) % 3]):
                for pos in range(2 if g2 is None else 3):
                    k += 1
                    parts = [g1] + ([g2] if g2 else [])
                    parts.insert(pos, b)
                    mixes = [["95%", "5%"], ["300", "700"], ["10%", "90%"]][k % 3] if g2 is None else [["60%", "30%", "10%"], ["100", "200", "700"], ["5%", "90%", "50"]][k % 3]
                    text = "".join(p_ + f".|{m_}|" for p_, m_ in zip(parts, mixes))
                    yield ("refusal-component", {"text": text, "ext": 1000.0 if all(m_.endswith("%") for m_ in mixes) else None, "bad": b})


def member_sets(comps):
    from ..genexp import Instance

    sets = []
    for spec, mix in comps:
        inst = Instance("c", spec)
        targets = []
        for ei, e in inst.stos:
            from ..genexp import parse_dist

            fam, par = parse_dist(e["dist"])
            targets.append(par[0])
        gm = R.GenModel(inst.nspec, targets)
        out = gm.run()
        if gm.err > 0 or gm.capped:
            raise HarnessError("component is not well posed")
        sets.append({member_form(R.plain_smiles_of_labelled(c)) for c in out})
    return sets


def eval_odd_chemistry(res, data):
    """every path of the ensemble iteration; masses from the residues of each yielded molecule (public residue graph),
    so that molecules the toolkit refuses to sanitise are still weighed"""
    import gbigsmiles
    from gbigsmiles.system import System

    text, ext, Smass = data["text"], data["ext"], float(data["smass"])

    def rmass(mg):
        from rdkit import Chem

        tot = 0.0
        for n in mg.graph.nodes:
            frag = mg.graph.nodes[n]["smiles"].replace(".", "")
            while "()" in frag:
                frag = frag.replace("()", "")
            m_ = Chem.MolFromSmiles(frag, sanitize=False)
            if m_ is None:
                raise HarnessError(f"cannot weigh fragment {frag!r}")
            tot += sum(a.GetMass() for a in m_.GetAtoms() if a.GetAtomicNum() > 1)
        return tot

    def run(rng):
        old = System.generator.fget.__defaults__
        System.generator.fget.__defaults__ = (rng,)
        out = []
        try:
            for mg in gbigsmiles.System(text, ext).generator:
                out.append(rmass(mg))
                if len(out) > 100:
                    return ("runaway", out)
            return ("ok", out)
        except HarnessError:
            raise
        except Exception as e:  # noqa
            return ("exc", f"{type(e).__name__}: {str(e)[:80]}")
        finally:
            System.generator.fget.__defaults__ = old

    n = 0
    lens = set()
    for rng, obs in explore(run, max_exec=3000):
        n += 1
        res["states"] += max(1, len(rng.points))
        res["transitions"] += max(1, len(rng.points))
        if obs[0] != "ok":
            viol(res, f"C13|odd-chemistry-{obs[0]}", f"System({text!r}): iteration {obs[0]}: {obs[1] if obs[0] == 'exc' else ''}", {"text": text, "script": rng.choices})
            break
        acc = 0.0
        bad = None
        for k, w in enumerate(obs[1]):
            if acc >= Smass - 1e-9:
                bad = f"molecule {k} is yielded although {acc:.3f} >= {Smass:.3f} was reached"
            acc += w
        if acc < Smass - 1e-9:
            bad = f"iteration stops at accumulated mass {acc:.3f} of the yielded molecules < system mass {Smass:.3f}"
        lens.add(len(obs[1]))
        if bad:
            viol(res, "C13|odd-chemistry-stop-rule", f"System({text!r}): {bad} (random path {rng.choices})", {"text": text, "script": rng.choices})
            break
    res["traces"] = n
    res["evals"] = n
    res["nontrivial"] = ["odd-chemistry", text]
    res["outcomes"] = [f"odd-chemistry:len={k}" for k in sorted(lens)]
    res["sample"] = {"system": text, "executions": n}
    return res


def eval_open_component(res, data):
    import gbigsmiles
    from gbigsmiles.system import System

    text, ext = data["text"], data["ext"]
    res["nontrivial"] = ["open-component", text]
    res["sample"] = {"system": text}

    def complete(mg):
        return bool(mg.fully_generated) and len(mg.bond_descriptors) == 0

    def run_single(rng):
        try:
            mg = gbigsmiles.System(text, ext).generate(rng=rng)
            return ("ok", [(mg.smiles, complete(mg))])
        except HarnessError:
            raise
        except Exception as e:  # noqa
            return ("exc", type(e).__name__)

    def run_iter(rng):
        old = System.generator.fget.__defaults__
        System.generator.fget.__defaults__ = (rng,)
        out = []
        try:
            for mg in gbigsmiles.System(text, ext).generator:
                out.append((mg.smiles, complete(mg)))
                if len(out) >= 3:
                    break
            return ("ok", out)
        except HarnessError:
            raise
        except Exception as e:  # noqa
            return ("ok", out) if out else ("exc", type(e).__name__)
        finally:
            System.generator.fget.__defaults__ = old

    n = 0
    kinds = set()
    for which, run in (("generate()", run_single), ("iterating .generator", run_iter)):
        for rng, obs in explore(run, max_exec=800):
            n += 1
            res["states"] += max(1, len(rng.points))
            res["transitions"] += max(1, len(rng.points))
            kinds.add(obs[0])
            if obs[0] == "ok" and any(not c for _, c in obs[1]):
                bad = next(smi for smi, c in obs[1] if not c)
                viol(res, f"C13|incomplete-molecule-handed-out|{'single' if which == 'generate()' else 'iterate'}", f"System({text!r}, {ext}): {which} hands out {bad}, which still has an open bond descriptor (random path {rng.choices})", {"text": text, "ext": ext, "script": rng.choices})
                break
    res["traces"] = n
    res["evals"] = n
    res["outcomes"] = [f"open-component:{k}" for k in sorted(kinds)]
    return res


def eval_refusal_component(res, data):
    import gbigsmiles
    from gbigsmiles.system import System

    text, ext, badc = data["text"], data["ext"], data["bad"]
    st, obj = run_limited(lambda: gbigsmiles.System(text, ext), (), 20)
    res["nontrivial"] = ["refusal-component", text]
    res["sample"] = {"system": text, "non_generable_component": badc}
    if st != "ok":
        res["outcomes"] = ["refusal-component:rejected-at-parse"]
        res["traces"] = 1
        return res  # rejecting the text outright is a refusal too

    def run_single(rng):
        try:
            mg = gbigsmiles.System(text, ext).generate(rng=rng)
            return ("ok", mg.smiles)
        except HarnessError:
            raise
        except Exception as e:  # noqa
            return ("exc", type(e).__name__)

    def run_iter(rng):
        old = System.generator.fget.__defaults__
        System.generator.fget.__defaults__ = (rng,)
        try:
            out = []
            for mg in gbigsmiles.System(text, ext).generator:
                out.append(mg.smiles)
                if len(out) >= 3:
                    break
            return ("ok", out)
        except HarnessError:
            raise
        except Exception as e:  # noqa
            return ("exc", type(e).__name__) if not out else ("ok", out)
        finally:
            System.generator.fget.__defaults__ = old

    n = 0
    for which, run in (("generate()", run_single), ("iterating .generator", run_iter)):
        for rng, obs in explore(run, max_exec=600):
            n += 1
            res["states"] += max(1, len(rng.points))
            res["transitions"] += max(1, len(rng.points))
            if obs[0] == "ok":
                viol(res, f"C13|non-generable-component-generates|{'single' if which == 'generate()' else 'iterate'}", f"System({text!r}, {ext}) has the non-generable component {badc!r} but {which} returns {obs[1]} on the random path {rng.choices}", {"text": text, "ext": ext, "script": rng.choices})
                break
    res["traces"] = n
    res["evals"] = n
    res["outcomes"] = [f"refusal-component:{n}"]
    return res


def eval_interleave(res, data, comps, ext, text, name):
    """Several live iterators of ONE System object, each with its own seeded generator.  A scheduler (the scripted
    generator, one decision per next() call; the iterator that ran last is alternative 0, so a deviation is a
    preemption) enumerates every interleaving.  Oracle: each iterator yields exactly the sequence the same seed yields
    on a fresh object used alone (and that sequence obeys the stop rule)."""
    import gbigsmiles
    import numpy as np
    from gbigsmiles.system import System

    cfg = [("u", None) if m is None else ("p", m[:-1]) if m.endswith("%") else ("a", m) for _, m in comps]
    ref = c12.solve(cfg, None if ext is None else str(ext))
    Smass = float(ref[1])
    k = int(data.get("iters", 2))
    seeds = [11, 22, 33][:k]

    def make_iter(obj, seed):
        old = System.generator.fget.__defaults__
        System.generator.fget.__defaults__ = (np.random.default_rng(seed),)
        try:
            return iter(obj.generator)
        finally:
            System.generator.fget.__defaults__ = old

    def alone(seed):
        it = make_iter(gbigsmiles.System(text, ext), seed)
        return [(mg.smiles, heavy_mass(mg.smiles)) for mg in it]

    st, base = run_limited(lambda: [alone(sd) for sd in seeds], (), 120)
    if st != "ok":
        viol(res, f"C13|interleave-baseline|{name}", f"System({text!r}): single iteration fails: {st} {base}", {"text": text})
        return res
    for b in base:
        acc = 0.0
        for (smi, w) in b:
            if acc >= Smass - 1e-9:
                viol(res, f"C13|continues-past-system-mass|{name}", f"System({text!r}): seeded iteration continues past the system mass", {"text": text})
            acc += w
        if acc < Smass - 1e-9:
            viol(res, f"C13|stops-early|{name}", f"System({text!r}): seeded iteration stops at {acc:.3f} < {Smass:.3f}", {"text": text})

    def run(sched):
        try:
            obj = gbigsmiles.System(text, ext)
            its = [make_iter(obj, sd) for sd in seeds]
            seqs = [[] for _ in its]
            done = [False] * len(its)
            order = list(range(len(its)))  # last-run iterator first
            trace = []
            steps = 0
            while not all(done):
                enabled = [i for i in order if not done[i]]
                i = enabled[int(sched.choice(len(enabled)))] if len(enabled) > 1 else enabled[0]
                order.remove(i)
                order.insert(0, i)
                trace.append(i)
                steps += 1
                if steps > 400:
                    return ("runaway", seqs, trace)
                try:
                    mg = next(its[i])
                    seqs[i].append((mg.smiles, heavy_mass(mg.smiles)))
                except StopIteration:
                    done[i] = True
            return ("ok", seqs, trace)
        except HarnessError:
            raise
        except Exception as e:  # noqa
            return ("exc", f"{type(e).__name__}: {str(e)[:100]}", None)

    n = 0
    outcomes = set()
    for sched, obs in explore(run, max_exec=MAX_EXEC[data["tier"]]):
        n += 1
        res["states"] += len(sched.points)
        res["transitions"] += len(sched.points)
        if obs[0] != "ok":
            viol(res, f"C13|interleave-{obs[0]}|{name}", f"System({text!r}) with {k} live iterators: {obs[1] if obs[0] == 'exc' else 'does not stop'}", {"text": text, "script": sched.choices})
            continue
        outcomes.add(tuple(len(x) for x in obs[1]))
        for i, sq in enumerate(obs[1]):
            if sq != base[i]:
                tot = sum(w for _, w in sq)
                viol(res, f"C13|depends-on-other-live-iterator|{name}", f"System({text!r}): with {k} live iterators on one object (schedule {''.join('ABC'[j] for j in obs[2])}) iterator {'ABC'[i]} yields {len(sq)} molecules with total mass {tot:.3f} (system mass {Smass:.3f}); alone, the same seeded generator yields {len(base[i])}", {"text": text, "script": sched.choices})
                break
    res["capped"] = bool(explore.capped)
    if res["capped"]:
        res["capped_note"] = f"every interleaving with <= {explore.completed_bound} preemptions covered"
    res["traces"] = n
    res["evals"] = n
    res["nontrivial"] = [name, "interleave", k, n]
    res["outcomes"] = [f"{name}:interleave:{o}" for o in sorted(outcomes)]
    res["sample"] = {"system": text, "live_iterators": k, "interleavings": n, "lengths_alone": [len(b) for b in base]}
    res["extra"] = {"interleavings": n}
    return res


def eval_case(kind, data):
    import gbigsmiles
    from gbigsmiles.system import System

    res = new_result()
    if kind == "ext-history":
        import itertools as _it

        import numpy as np

        text, exts = data["text"], data["exts"]
        nh = 0
        for hist in _it.chain.from_iterable(_it.product(exts, repeat=r) for r in (2, 3)):
            nh += 1
            for hi, ext in enumerate(hist):
                res["transitions"] += 1
                try:
                    obj = gbigsmiles.System(text, ext)
                    gable = bool(obj.generable)
                except Exception as e:  # noqa
                    viol(res, "C13|ext-history|constructor-raises", f"System({text!r}, {ext}) after {list(hist[:hi])}: {type(e).__name__}: {str(e)[:80]}", {"text": text, "hist": list(hist)})
                    break
                if ext is None:
                    if gable:
                        viol(res, "C13|ext-history|massless-system-generable", f"System({text!r}) without a total is generable after systems with totals {list(hist[:hi])} were built from the same text", {"text": text, "hist": list(hist)})
                        break
                    try:
                        obj.generate(rng=np.random.default_rng(1))
                        viol(res, "C13|ext-history|massless-system-generates", f"System({text!r}) without a total generates after {list(hist[:hi])}", {"text": text, "hist": list(hist)})
                        break
                    except Exception:  # noqa
                        continue
                if not gable:
                    viol(res, "C13|ext-history|refuses", f"System({text!r}, {ext}) is not generable after {list(hist[:hi])}", {"text": text, "hist": list(hist)})
                    break
                old = System.generator.fget.__defaults__
                System.generator.fget.__defaults__ = (np.random.default_rng(10 + hi),)
                try:
                    acc = 0.0
                    cnt = 0
                    over = False
                    for mg in obj.generator:
                        if acc >= ext - 1e-9:
                            over = True
                        acc += heavy_mass(mg.smiles)
                        cnt += 1
                        if cnt > 400:
                            break
                finally:
                    System.generator.fget.__defaults__ = old
                if acc < ext - 1e-9 or over:
                    viol(res, "C13|ext-history|wrong-total", f"System({text!r}, {ext}) built after totals {list(hist[:hi])}: iteration accumulates {acc:.3f} ({'continues past' if over else 'stops before'} its total {ext})", {"text": text, "hist": list(hist)})
                    break
        res["states"] = nh
        res["traces"] = nh
        res["evals"] = nh
        res["nontrivial"] = ["ext-history", text, nh]
        res["outcomes"] = [f"ext-history:{nh}"]
        res["sample"] = {"text": text, "totals": exts, "histories": nh}
        return res
    if kind == "refusal":
        n = 0
        for cfg in data["cfgs"]:
            cfg = [tuple(x) for x in cfg]
            text = c12.text_of(cfg)
            for ext in c12.ext_options(cfg):
                st, obj = run_limited(lambda: gbigsmiles.System(text, None if ext is None else float(ext)), (), 10)
                if st != "ok":
                    continue
                try:
                    gable = bool(obj.generable)
                except Exception:  # noqa
                    continue
                if gable:
                    continue
                n += 1
                res["states"] += 1
                res["transitions"] += 2
                res["traces"] += 1
                rng = ScriptedGenerator([])
                old = System.generator.fget.__defaults__
                System.generator.fget.__defaults__ = (rng,)
                try:
                    st1, got = run_limited(lambda: [m.smiles for m in obj.generator], (), 20)
                finally:
                    System.generator.fget.__defaults__ = old
                if st1 == "ok":
                    viol(res, "C13|non-generable-iterates", f"System({text!r}, {ext}) is not generable but iterating .generator yields {got[:3]}", {"text": text, "ext": ext})
                st2, got2 = run_limited(lambda: obj.generate(rng=ScriptedGenerator([])).smiles, (), 20)
                if st2 == "ok":
                    viol(res, "C13|non-generable-generates", f"System({text!r}, {ext}) is not generable but .generate() returns {got2}", {"text": text, "ext": ext})
        res["evals"] = n
        res["nontrivial"] = ["refusal", c12.text_of([tuple(x) for x in data["cfgs"][0]]), n]
        res["outcomes"] = [f"refusal:{n}"]
        res["sample"] = {"non_generable_configurations_checked": n}
        return res

    if kind == "refusal-component":
        return eval_refusal_component(res, data)
    if kind == "open-component":
        return eval_open_component(res, data)
    if kind == "odd-chemistry":
        return eval_odd_chemistry(res, data)
    comps = [(c[0], c[1]) for c in data["comps"]]
    ext = data["ext"]
    text = sys_text(comps)
    name = data["name"]
    if kind == "interleave":
        return eval_interleave(res, data, comps, ext, text, name)
    cfg = [("u", None) if m is None else ("p", m[:-1]) if m.endswith("%") else ("a", m) for _, m in comps]
    ref = c12.solve(cfg, None if ext is None else str(ext))
    if ref[0] != "determined":
        raise HarnessError(f"system {text} is not determined in the reference model")
    Smass = float(ref[1])
    sets = member_sets(comps)
    from rdkit import Chem

    def run(rng):
        old = System.generator.fget.__defaults__
        System.generator.fget.__defaults__ = (rng,)
        try:
            sysobj = gbigsmiles.System(text, ext)
            out = []
            gen = sysobj.generator
            for mg in gen:
                out.append((mg.smiles, heavy_mass(mg.smiles), bool(mg.fully_generated) and len(mg.bond_descriptors) == 0))
                if len(out) > 200:
                    return ("runaway", out)
            # the generator must be exhausted now
            extra = list(gen)
            return ("ok", out, len(extra))
        except HarnessError:
            raise
        except Exception as e:  # noqa
            return ("exc", f"{type(e).__name__}: {str(e)[:100]}")
        finally:
            System.generator.fget.__defaults__ = old

    n = 0
    lengths = set()
    for rng, obs in explore(run, max_exec=MAX_EXEC[data["tier"]]):
        n += 1
        res["states"] += len(rng.points)
        res["transitions"] += len(rng.points)
        script = rng.choices
        if obs[0] == "exc":
            viol(res, f"C13|raises|{name}", f"System({text!r}): iteration raises {obs[1]}", {"text": text, "script": script})
            continue
        if obs[0] == "runaway":
            viol(res, f"C13|does-not-stop|{name}", f"System({text!r}): more than 200 molecules for system mass {Smass}", {"text": text, "script": script})
            continue
        seq = obs[1]
        lengths.add(len(seq))
        acc = 0.0
        for k, (smi, w, full) in enumerate(seq):
            if not full:
                viol(res, f"C13|partial-member|{name}", f"System({text!r}): molecule {k} ({smi}) is not fully generated", {"text": text, "script": script})
            can = member_form(smi)
            owners = [i for i, s in enumerate(sets) if can in s]
            if len(owners) != 1:
                viol(res, f"C13|not-a-member|{name}", f"System({text!r}): molecule {k} ({smi}) is an instance of {len(owners)} declared components", {"text": text, "script": script})
            if acc >= Smass - 1e-9:
                viol(res, f"C13|continues-past-system-mass|{name}", f"System({text!r}): molecule {k} is generated although {acc:.3f} >= system mass {Smass:.3f} was already reached", {"text": text, "script": script})
            acc += w
        if acc < Smass - 1e-9:
            viol(res, f"C13|stops-early|{name}", f"System({text!r}): iteration stops at accumulated mass {acc:.3f} < system mass {Smass:.3f} after {len(seq)} molecules", {"text": text, "script": script})
    res["capped"] = bool(explore.capped)
    if res["capped"]:
        res["capped_note"] = f"every execution with <= {explore.completed_bound} deviations from the default answers covered"
    res["traces"] = n
    # single generation
    def run1(rng):
        try:
            sysobj = gbigsmiles.System(text, ext)
            mg = sysobj.generate(rng=rng)
            return ("ok", mg.smiles, bool(mg.fully_generated) and len(mg.bond_descriptors) == 0)
        except HarnessError:
            raise
        except Exception as e:  # noqa
            return ("exc", f"{type(e).__name__}: {str(e)[:100]}")

    m = 0
    for rng, obs in explore(run1, max_exec=2000):
        m += 1
        res["states"] += len(rng.points)
        res["transitions"] += len(rng.points)
        if obs[0] == "exc":
            viol(res, f"C13|generate-raises|{name}", f"System({text!r}).generate() raises {obs[1]}", {"text": text, "script": rng.choices})
            continue
        can = member_form(obs[1])
        owners = [i for i, s in enumerate(sets) if can in s]
        if not obs[2] or len(owners) != 1:
            viol(res, f"C13|generate-not-a-member|{name}", f"System({text!r}).generate() returns {obs[1]} (fully generated {obs[2]}, member of {len(owners)} components)", {"text": text, "script": rng.choices})
    res["traces"] += m
    # the same System object used again: partially consumed iterators, complete iterations and single generations in every
    # order (histories up to length 3) must leave the next complete iteration unaffected
    import itertools as _it

    import numpy as np

    def consume(obj, k, rng):
        old = System.generator.fget.__defaults__
        System.generator.fget.__defaults__ = (rng,)
        try:
            out = []
            gen = obj.generator
            for mg in gen:
                out.append((mg.smiles, heavy_mass(mg.smiles), bool(mg.fully_generated) and len(mg.bond_descriptors) == 0))
                if k is not None and len(out) >= k:
                    break
                if len(out) > 300:
                    break
            return out
        finally:
            System.generator.fget.__defaults__ = old

    nh = 0
    for hist in _it.chain.from_iterable(_it.product(["P1", "P2", "F", "G"], repeat=r) for r in (1, 2, 3)):
        nh += 1
        try:
            obj = gbigsmiles.System(text, ext)
            for hi, op in enumerate(hist):
                rng = np.random.default_rng(100 + hi)
                if op == "G":
                    obj.generate(rng=rng)
                else:
                    consume(obj, {"P1": 1, "P2": 2, "F": None}[op], rng)
            seq = consume(obj, None, np.random.default_rng(7))
        except HarnessError:
            raise
        except Exception as e:  # noqa
            viol(res, f"C13|reuse-raises|{name}", f"System({text!r}) after {list(hist)}: {type(e).__name__}: {str(e)[:80]}", {"text": text, "hist": list(hist)})
            continue
        res["states"] += 1
        res["transitions"] += len(hist) + 1
        acc = 0.0
        bad = None
        for k, (smi, w, full) in enumerate(seq):
            if acc >= Smass - 1e-9:
                bad = f"molecule {k} generated although the system mass was reached"
            acc += w
            if not full or len([1 for st_ in sets if member_form(smi) in st_]) != 1:
                bad = f"molecule {k} ({smi}) is not a complete member"
        if acc < Smass - 1e-9:
            bad = f"iteration stops at accumulated mass {acc:.3f} < system mass {Smass:.3f}"
        if bad:
            viol(res, f"C13|depends-on-earlier-use|{'after-partial-iteration' if any(h in ('P1', 'P2') for h in hist) else 'after-complete-use'}", f"System({text!r}) after the history {list(hist)} on the same object: {bad}", {"text": text, "hist": list(hist)})
    res["traces"] += nh
    res["extra"] = {"reuse_histories": nh}
    res["evals"] = res["traces"]
    res["nontrivial"] = [name, n]
    res["outcomes"] = [f"{name}:len={k}" for k in sorted(lengths)]
    res["sample"] = {"system": text, "system_mass": Smass, "ensemble_executions": n, "single_generate_executions": m, "ensemble_sizes": sorted(lengths)}
    return res
