"""C16 - the reaction graph states the generator's probabilities, normalised at every node.

Every molecule of the bounded enumeration (archetype families, weight forms incl. zeros, transition lists, connectors,
two and three objects, C02's molecule descriptions): the real gen_reaction_graph() is compared node by node and edge by
edge with the selection law of the reference model (the same law C08 proves the generator to follow).
"""
import itertools

from .. import refsem as R
from ..common import new_result, viol
from ..genexp import Instance, token_sig

ANCHORS = ["src/gbigsmiles/molecule.py", "src/gbigsmiles/core.py"]
LEVEL_RULE = (
    "every molecule of the bounded enumeration x every descriptor node x every edge kind: state = one descriptor node, transition = one out-edge "
    "vector (prob / term_prob / trans_prob) compared with the reference selection law, trace = one real graph built and compared completely; "
    "non-trivial = distinct molecules"
)
ASSUMPTIONS = [
    "graph nodes are matched to the written tokens / descriptors by insertion order and verified by text, symbol, id and weight",
    "the reference selection law is the one C08 shows the generator to follow on all choice sequences",
    "termination probabilities out of end-group descriptors correspond to no generation step and are only required to be normalised",
]
BOUNDS = {"quick": "archetype families (quick) + weight-form product on 2-unit copolymers + token/token and object/token junction variants", "thorough": "families (thorough) + larger products"}
CASE_TIMEOUT = {"quick": 300, "thorough": 1800}


def extra_specs(tier):
    """molecule descriptions stressing zero weights, several admissible descriptors at a junction, transition lists"""
    S, T = R.sto, R.tok
    g = "gauss(40.0, 0)"
    out = []
    ws = [None, "0", "2", "0.5"]
    for wa, wb, we in itertools.product(ws, ws, [None, "0", "3"]):
        a = "[<]CC[>]" if wa is None else f"[<|{wa}|]CC[>]"
        b = "[<]CO[>]" if wb is None else f"[<|{wb}|]CO[>]"
        e1 = "[<]Cl" if we is None else f"[<|{we}|]Cl"
        out.append(("wprod", {"elements": [T("N"), S("[>]", [a, b], [e1, "[<]Br", "[>]I"], "[<]", g), T("F")], "mixture": None}))
    for wa, wb in itertools.product(ws, ws):
        a = "[$]CC[$]" if wa is None else f"[$|{wa}|]CC[$]"
        b = "[$]CO[$]" if wb is None else f"[$]CO[$|{wb}|]"
        out.append(("wprod-sym", {"elements": [S("[]", [a, b], ["[$][H]", "[$|2|]O"], "[]", g)], "mixture": None}))
    # junctions: suffix with several admissible descriptors, object -> object, token -> token
    out.append(("junction", {"elements": [T("N"), S("[>]", ["[<]CC[>]"], [], "[<]", g), T("[<]C([<|3|])F")], "mixture": None}))
    out.append(("junction", {"elements": [T("N"), S("[>]", ["[<]CC[>]"], [], "[<]", g), S("[>]", ["[<|0|]CO[>]", "[<|0|]CS[>]"], [], "[<]", g), T("F")], "mixture": None}))
    out.append(("junction", {"elements": [T("N"), S("[>]", ["[<]CC[>]"], [], "[<]", g), S("[>]", ["[<|1|]CO[>]", "[<|3|]CS[>]"], [], "[<]", g), T("F")], "mixture": None}))
    out.append(("junction", {"elements": [T("N"), S("[>|0 0 0 1|]", ["[<]CC[>]", "[<]CO[>]"], [], "[<]", g), T("F")], "mixture": None}))
    out.append(("translist", {"elements": [T("N"), S("[>]", ["[<]CC[>|0 0 1 0 0|]", "[<]CO[>|1 0 0 0 0|]"], ["[<]Cl"], "[<]", g), T("F")], "mixture": None}))
    out.append(("translist", {"elements": [T("N"), S("[>]", ["[<]CC[>|1 0 3 0 2|]", "[<]CO[>]"], ["[<]Cl"], "[<]", g), T("F")], "mixture": None}))
    out.append(("translist", {"elements": [S("[]", ["[$|3 4 5 6 0 8|]C([$|4.|])C=O", "[$|6.|]CC([$|10.1|])CO"], ["[$][H]", "[$]O"], "[]", "flory_schulz(9e-4)")], "mixture": None}))
    return out


def enumerate_cases(tier, seed):
    from ..instances import families, feature_instances

    specs = [(i.family, i.spec) for i in families(tier, seed)] + [(i.family, i.spec) for i in feature_instances(tier, seed)] + extra_specs(tier)
    from . import c02

    specs += [("c02-mol", s) for (k, s, d) in c02.higher_specs(tier, seed) if k == "mol"][:: (1 if tier == "thorough" else 3)]
    step = 10
    for lo in range(0, len(specs), step):
        yield ("graphs", {"specs": specs[lo : lo + step]})


# ------------------------------------------------------------------ reference law


def ref_vectors(nspec):
    """for every descriptor (element, token index within element, descriptor index) the model vectors:
    returns list of dicts {id, prob: {target: p}, term: {...} | None (not compared), trans: {...}}"""
    els = nspec["elements"]
    table = []  # (ei, role, ti, k, tokentext)
    el_desc = []
    for ei, e in enumerate(els):
        lst = []
        if e["k"] == "tok":
            tr = R.token_ref(e["text"])
            for k in range(len(tr.descs)):
                lst.append((ei, "tok", 0, k, e["text"]))
        else:
            for ti, t in enumerate(e["rep"]):
                for k in range(len(R.token_ref(t).descs)):
                    lst.append((ei, "rep", ti, k, t))
            for ti, t in enumerate(e["end"]):
                for k in range(len(R.token_ref(t).descs)):
                    lst.append((ei, "end", ti + len(e["rep"]), k, t))
        el_desc.append(lst)
        table += lst

    def dref(x):
        return R.token_ref(x[4]).descs[x[3]]

    out = {}
    for x in table:
        ei = x[0]
        e = els[ei]
        d = dref(x)
        prob, term, trans = {}, {}, {}
        term_checked = True
        if e["k"] == "sto":
            mine = el_desc[ei]
            if d.transitions is not None:
                tot = sum(d.transitions)
                for i, w in enumerate(d.transitions):
                    if w > 0 and i < len(mine):
                        prob[mine[i][:4]] = w / tot
                term = None  # the notation lists growth partners only; capping out of a listed descriptor follows the end-group law
                cand = [y for y in mine if y[1] == "end" and R.compat(d, dref(y))]
                term = {y[:4]: p for y, p in zip(cand, R.weights_to_probs([dref(y).weight for y in cand])) if p > 0}
            else:
                cand = [y for y in mine if y[1] == "rep" and R.compat(d, dref(y))]
                prob = {y[:4]: p for y, p in zip(cand, R.weights_to_probs([dref(y).weight for y in cand])) if p > 0}
                cand = [y for y in mine if y[1] == "end" and R.compat(d, dref(y))]
                term = {y[:4]: p for y, p in zip(cand, R.weights_to_probs([dref(y).weight for y in cand])) if p > 0}
            if x[1] == "end":
                term_checked = False
        # transitions to the next element
        if ei + 1 < len(els):
            nx = els[ei + 1]
            nd = el_desc[ei + 1]
            eligible = True
            if e["k"] == "sto":
                Rt = R.terminal_ref(e["right"])
                eligible = x[1] == "rep" and R.compat(d, Rt)
            if eligible:
                if nx["k"] == "tok":
                    cand = [y for y in nd if R.compat(d, dref(y))]
                    trans = {y[:4]: p for y, p in zip(cand, R.weights_to_probs([dref(y).weight for y in cand])) if p > 0}
                else:
                    Lt = R.terminal_ref(nx["left"])
                    if d.symbol == Lt.symbol and d.id == Lt.id:
                        if Lt.transitions is not None:
                            tot = sum(Lt.transitions)
                            trans = {nd[i][:4]: w / tot for i, w in enumerate(Lt.transitions) if w > 0 and i < len(nd)}
                        else:
                            cand = [y for y in nd if y[1] == "rep" and R.compat(d, dref(y))]
                            trans = {y[:4]: p for y, p in zip(cand, R.weights_to_probs([dref(y).weight for y in cand])) if p > 0}
        out[x[:4]] = {"prob": prob, "term": term, "trans": trans, "term_checked": term_checked, "text": x[4], "desc": d}
    return table, out


def eval_case(kind, data):
    import gbigsmiles

    res = new_result()
    outcomes = set()
    from .c17 import mirror_spec

    for (fam, spec), variant in itertools.product(data["specs"], ("plain", "second-call", "graph-then-mirror", "mirror-first")):
        text = R.print_spec(spec)
        nspec = R.normalize(spec)
        try:
            mol = gbigsmiles.Molecule(text)
        except Exception as e:  # noqa
            res["extra"]["rejected"] = res["extra"].get("rejected", 0) + 1
            continue
        if variant == "second-call":
            # history: the graph is built twice from the same object; the second one is judged
            try:
                mol.gen_reaction_graph()
            except Exception:  # noqa
                continue
            text += " (second call)"
        elif variant != "plain":
            if len(nspec["elements"]) < 2:
                continue
            try:
                if variant == "graph-then-mirror":
                    try:
                        mol.gen_reaction_graph()
                    except Exception:  # noqa
                        pass
                mol = mol.gen_mirror()
                nspec = mirror_spec(nspec)
                text += f" (mirrored, {variant})"
            except Exception as e:  # noqa
                viol(res, f"C16|mirror-raises|{type(e).__name__}", f"{text}: gen_mirror raises {type(e).__name__}", {"text": text})
                continue
        try:
            G = mol.gen_reaction_graph()
        except Exception as e:  # noqa
            table, ref = ref_vectors(nspec)
            tok_list = any(e2["k"] == "tok" and any(d.transitions is not None for d in R.token_ref(e2["text"]).descs) for e2 in nspec["elements"])
            viol(res, f"C16|graph-raises|{type(e).__name__}|{'token-element-with-transition-list' if tok_list else 'other'}", f"{text}: gen_reaction_graph raises {type(e).__name__}: {str(e)[:80]}", {"text": text})
            continue
        res["traces"] += 1
        table, ref = ref_vectors(nspec)
        nodes = list(G.nodes)
        # expected node sequence: token, its descriptors, token, ...
        exp_seq = []
        for ei, e in enumerate(nspec["elements"]):
            toks = [e["text"]] if e["k"] == "tok" else e["rep"] + e["end"]
            for ti, t in enumerate(toks):
                exp_seq.append(("T", ei, ti, t))
                for k in range(len(R.token_ref(t).descs)):
                    role = "tok" if e["k"] == "tok" else ("rep" if ti < len(e["rep"]) else "end")
                    exp_seq.append(("D", (ei, role, ti, k)))
        if len(nodes) != len(exp_seq):
            viol(res, "C16|node-count", f"{text}: graph has {len(nodes)} nodes, the string has {len(exp_seq)} tokens + descriptors", {"text": text})
            continue
        node_of = {}
        ok = True
        for n, x in zip(nodes, exp_seq):
            if x[0] == "T":
                try:
                    same = isinstance(n, gbigsmiles.SmilesToken) and token_sig(str(n)) == token_sig(x[3])
                except Exception:  # noqa  (a node whose text is not even a token)
                    same = False
                if not same:
                    ok = False
                    viol(res, "C16|node-identity", f"{text}: node {n} should be token {x[3]}", {"text": text})
                    break
            else:
                d = ref[x[1]]["desc"]
                if not isinstance(n, gbigsmiles.BondDescriptor) or n.descriptor != d.symbol or abs(n.weight - d.weight) > 1e-12:
                    ok = False
                    viol(res, "C16|node-identity", f"{text}: node {n} should be descriptor {d.text}", {"text": text})
                    break
                node_of[id(n)] = x[1]
                if abs(G.nodes[n].get("weight", -1) - d.weight) > 1e-12:
                    viol(res, "C16|node-weight", f"{text}: descriptor node {d.text} carries weight {G.nodes[n].get('weight')}", {"text": text})
        if not ok:
            continue
        # atom edges
        tok_nodes = [n for n in nodes if isinstance(n, gbigsmiles.SmilesToken)]
        for n in nodes:
            if id(n) not in node_of:
                continue
            key = node_of[id(n)]
            r = ref[key]
            d = r["desc"]
            res["states"] += 1
            got = {"prob": {}, "term_prob": {}, "trans_prob": {}}
            for _, tgt, ed in G.out_edges(n, data=True):
                for kname in got:
                    if kname in ed:
                        if id(tgt) not in node_of:
                            viol(res, f"C16|edge-to-non-descriptor|{kname}", f"{text}: {kname} edge from {d.text} to a non-descriptor node", {"text": text})
                            continue
                        got[kname][node_of[id(tgt)]] = got[kname].get(node_of[id(tgt)], 0.0) + float(ed[kname])
                if "weight" in ed and id(tgt) in node_of and not R.compat(d, ref[node_of[id(tgt)]]["desc"]):
                    viol(res, "C16|weight-edge-incompatible", f"{text}: weight edge joins incompatible descriptors", {"text": text})
            # incoming atom edge
            atom_in = [ed.get("atom") for src, _, ed in G.in_edges(n, data=True) if "atom" in ed]
            if d.weight >= 0 and atom_in != [d.atom]:
                viol(res, "C16|atom-edge", f"{text}: descriptor {d.text} of {r['text']}: atom edges {atom_in}, attachment atom {d.atom}", {"text": text})
            for kname, mname in (("prob", "prob"), ("term_prob", "term"), ("trans_prob", "trans")):
                res["transitions"] += 1
                g = {k: v for k, v in got[kname].items()}
                s = sum(g.values())
                if not (abs(s - 1) < 1e-9 or abs(s) < 1e-9):
                    cls = sum_class(kname, key, g, ref, nspec)
                    viol(res, f"C16|not-normalised|{kname}|{cls}", f"{text}: {kname} out of {d.text} of {r['text']} sums to {s}", {"text": text})
                    outcomes.add(f"{kname}:unnormalised")
                    continue
                exp = r[mname]
                if mname == "term" and not r["term_checked"]:
                    continue
                if exp is None:
                    continue
                keys = set(exp) | {k for k, v in g.items() if abs(v) > 1e-12}
                bad = [k for k in keys if abs(exp.get(k, 0.0) - g.get(k, 0.0)) > 1e-9]
                outcomes.add(f"{kname}:{len(exp)}")
                if bad:
                    cls = mismatch_class(kname, key, exp, g, ref, nspec)
                    viol(
                        res,
                        f"C16|wrong-probability|{kname}|{cls}",
                        f"{text}: {kname} out of {d.text} of {r['text']}: graph {fmtv(g, ref)} but generation picks with {fmtv(exp, ref)}",
                        {"text": text, "node": list(key)},
                    )
        # dot export mentions every node
        try:
            from gbigsmiles.core import reaction_graph_to_dot_string

            dot = reaction_graph_to_dot_string(G, mol)
            missing = [n for n in nodes if f'"{hash(n)}"' not in dot]
            if missing:
                viol(res, "C16|dot-missing-node", f"{text}: dot export lacks {len(missing)} nodes", {"text": text})
        except Exception as e:  # noqa
            viol(res, f"C16|dot-raises|{type(e).__name__}", f"{text}: dot export raises {type(e).__name__}: {str(e)[:60]}", {"text": text})
    res["evals"] = res["traces"]
    res["outcomes"] = sorted(outcomes)
    res["nontrivial"] = [R.print_spec(data["specs"][0][1]), res["traces"]] if res["traces"] else None
    res["sample"] = {"molecule": R.print_spec(data["specs"][0][1])}
    return res


def fmtv(v, ref):
    return "{" + ", ".join(f"{ref[k]['desc'].text}@{k[0]}.{k[2]}:{round(p, 4)}" for k, p in sorted(v.items())) + "}"


def mismatch_class(kname, key, exp, got, ref, nspec):
    """diagnose the cause class so that a listed finding is specific: each class names the exact pattern observed"""
    ws = [ref[k]["desc"].weight for k in exp]
    nz = {k: v for k, v in got.items() if abs(v) > 1e-12}
    if exp and all(w == 0 for w in ws) and not nz and set(got) <= set(exp):
        # generation picks uniformly among an all-zero-weight group; the graph has no / only zero-valued edges there
        return "all-zero-weight-group-without-probability"
    d = ref[key]["desc"]
    if kname == "term_prob" and d.transitions is not None and not got:
        return "listed-descriptor-has-no-termination-edges"
    if kname == "trans_prob" and len(exp) > 1 and len(nz) > 1 and all(abs(v - 1.0) < 1e-12 for v in nz.values()):
        return "token-junction-each-1.0"  # SEVERAL admissible descriptors, each with probability 1.0
    if kname == "trans_prob":
        # left terminal with a transition list: does the graph state the plain weight law instead?
        ei = key[0]
        if ei + 1 < len(nspec["elements"]) and nspec["elements"][ei + 1]["k"] == "sto":
            Lt = R.terminal_ref(nspec["elements"][ei + 1]["left"])
            if Lt.transitions is not None:
                cand = [k for k in ref if k[0] == ei + 1 and k[1] == "rep" and R.compat(d, ref[k]["desc"])]
                law = {k: p for k, p in zip(cand, R.weights_to_probs([ref[k]["desc"].weight for k in cand])) if p > 0}
                if set(law) == set(nz) and all(abs(law[k] - nz[k]) < 1e-9 for k in law):
                    return "left-terminal-transition-list-ignored"
                if not nz and cand and all(ref[k]["desc"].weight == 0 for k in cand) and set(got) <= set(cand):
                    # the plain weight law of an all-zero group as the graph writes it (zeros), again without the list
                    return "left-terminal-transition-list-ignored"
    if kname == "trans_prob" and exp and not nz:
        ei = key[0]
        if ei + 1 < len(nspec["elements"]) and nspec["elements"][ei + 1]["k"] == "sto":
            Lt = R.terminal_ref(nspec["elements"][ei + 1]["left"])
            if Lt.order != d.order:
                # generation matches the entering descriptor and the left terminal by symbol and id only
                return "left-terminal-written-without-the-bond-order-of-the-entering-descriptor"
    if not exp and got:
        return "spurious-edges"
    if exp and not got:
        return "missing-edges"
    return "other"


def sum_class(kname, key, got, ref, nspec):
    if kname == "trans_prob" and all(abs(v - 1.0) < 1e-12 for v in got.values()):
        return "token-junction-each-1.0"
    if ref[key]["desc"].transitions is not None:
        return "transition-list"
    return "other"
