"""C02 - parsing recovers exactly the structure the notation denotes.

Bounded grammar enumeration.  Token level: every writing tree up to the tier's size with every placement of descriptor
leaves (leading, trailing, alone in a branch, closing a branch, adjacent), ring templates with inserted descriptor
branches; the reference reading replaces each descriptor by a labelled dummy atom and lets RDKit parse the string - the
dummy's neighbour and bond order are what the descriptor must bind to.  Higher levels: stochastic objects, molecules and
systems printed from structured descriptions by an independent printer in several format variants.
"""
import itertools

from .. import grammar as G
from .. import refsem as R
from ..common import new_result, run_limited, viol

ANCHORS = ["src/gbigsmiles/token.py", "src/gbigsmiles/bond.py", "src/gbigsmiles/stochastic.py", "src/gbigsmiles/molecule.py", "src/gbigsmiles/system.py", "src/gbigsmiles/distribution.py", "src/gbigsmiles/mixture.py", "src/gbigsmiles/atom.py"]
LEVEL_RULE = (
    "breadth-first derivation of a bounded grammar; state = one complete structured description (token writing tree / stochastic object / "
    "molecule / system), transition = one compared attribute of the parsed object, trace = one string parsed by the real parser and compared "
    "attribute by attribute with the reference reading; non-trivial = distinct strings the reference reading accepts"
)
ASSUMPTIONS = [
    "RDKit's SMILES parser defines which atom an atom written at a position bonds to and with which order",
    "strings RDKit rejects for valence are outside the quantifier (counted as skipped)",
    "explicit [H] inside multi-atom tokens is excluded (the library counts it as an atom, RDKit merges it)",
]
BOUNDS = {
    "quick": "tokens <= 5 atoms, <= 3 descriptors, all shapes/placements, ring templates with <= 2 insertions; 2.3k stochastic objects / molecules / systems x 2 formats",
    "thorough": "tokens <= 7 atoms, <= 3 descriptors, bond variants, every float syntax; all formats",
}
CASE_TIMEOUT = {"quick": 300, "thorough": 3000}
BT = {1.0: 1, 2.0: 2, 3.0: 3, 1.5: 7}  # rdkit BondType values SINGLE DOUBLE TRIPLE ONEANDAHALF


def token_universe(tier, seed):
    if tier == "quick":
        toks = list(G.token_strings(5, 3, 1, seed=seed, bond_variants=True))
        toks += list(G.ring_token_strings(1, 2, seed=seed))
        toks += list(G.token_strings(4, 3, 2, seed=seed + 7, bond_variants=False))
        toks += HYDROGEN_TOKENS
    else:
        toks = list(G.token_strings(7, 3, 2, seed=seed, bond_variants=True))
        toks += list(G.ring_token_strings(2, 3, seed=seed))
        toks += list(G.token_strings(4, 3, 1, seed=seed + 11, bond_variants=True))
        toks += HYDROGEN_TOKENS
    seen = set()
    out = []
    for t in toks:
        if t not in seen:
            seen.add(t)
            out.append(t)
    return out


HYDROGEN_TOKENS = ["[$][H]", "[H][<]", "[$]C([H])(C#N)[$]", "[$]C(C#N)([H])[$]", "[$]C([H])C[$]", "[H]C([$])C[$]", "[<]C([2H])C[>]", "[$]CC([H])([H])[$]", "[<]N([H])C(=O)[>]", "[<]C(=O)N([H])[>]"]
REP = ["[$|3.|]CC[$]", "[<]CC([>])c1ccccc1", "[$1]C([$1|2.5|])C=O", "[>]CO[<|0.5|]", "[$]CC([$])CO", "[<|1 0 2 0|]C(=O)[>]"]
END = ["[$][H]", "[<]Cl", "[$1]O", "[>|3|]N"]
TERM = ["[]", "[$]", "[<]", "[>]", "[$1]", "[<|2|]"]


def higher_specs(tier, seed):
    """structured descriptions of stochastic objects / molecules / systems"""
    th = tier == "thorough"
    dists = G.DISTS if th else G.DISTS[:7]
    k = seed
    # stochastic objects
    for nrep, nend in itertools.product([1, 2, 3], [0, 1, 2]):
        for lt, rt in itertools.product(TERM, TERM):
            k += 1
            if not th and k % 3:
                continue
            rep = [REP[(k + i) % len(REP)] for i in range(nrep)]
            end = [END[(k + 2 * i) % len(END)] for i in range(nend)]
            # transition lists must have one entry per descriptor of the object: drop list weights unless they fit
            nd = sum(len(R.token_ref(t).descs) for t in rep + end)
            rep = [t if "|1 0 2 0|" not in t or nd == 4 else t.replace("|1 0 2 0|", "") for t in rep]
            d = dists[k % len(dists)] if k % 4 else None
            yield ("sto", {"k": "sto", "left": lt, "rep": rep, "end": end, "right": rt, "dist": d[1] if d else None}, d)
    # molecules
    prefixes = ["", "N", "[H]", "OC", "CC[>|0|]", "CC(C)(C)", "CCOC(=O)C(C)(C)"]  # incl. prefixes that end in a closed branch
    suffixes = ["", "F", "[H]", "C(C)CC(c1ccccc1)c1ccccc1", "[<]CO"]
    conns = [None, "", "S", "CC", "[<]CC[>|0|]", "CC(=O)", "C(C)(C)"]
    for p, s, c in itertools.product(prefixes, suffixes, conns):
        k += 1
        if not th and k % 2:
            continue
        d1, d2 = dists[k % len(dists)], dists[(k + 3) % len(dists)]
        els = []
        if p:
            els.append(R.tok(p))
        els.append(R.sto("[>]" if p else "[]", ["[<|2.|]CC[>]", "[<|.5|]CC([>])c1ccccc1"][: 1 + (k // 2) % 2], [] if p else ["[>]N"], "[<]" if (s or c is not None) else "[]" if not p else "[<]", d1[1]))
        if c is not None:
            if c:
                els.append(R.tok(c))
            els.append(R.sto("[>]", ["[<]CO[>]"], ["[<]Cl"] if k % 3 == 0 else [], "[<]" if s else "[<]", d2[1]))
        if s:
            els.append(R.tok(s))
        mix = [None, "5000", "25%", "5e4", "10.0%"][k % 5]
        yield ("mol", {"elements": els, "mixture": mix}, (d1, d2))
    # two objects joined by a connector written WITHOUT descriptors (or directly), the first object's right terminal
    # carrying a weight or a transition list (the inserted connector descriptor never carries one)
    for conn in ("", "S", "CO", "C(C)C"):
        for rt in ("[<|2.5|]", "[<|1 2|]", "[<|0|]", "[<2|3|]"):
            for lt2 in ("[>]", "[>|4|]"):
                if rt.startswith("[<2") :
                    lt2 = lt2.replace("[>", "[>2")
                k += 1
                d1, d2 = dists[k % len(dists)], dists[(k + 2) % len(dists)]
                idp = "2" if rt.startswith("[<2") else ""
                els = [R.tok("N"), R.sto("[>]", [f"[<]CC[>{idp}]"] if idp else ["[<]CC[>]"], [], rt, d1[1])]
                if conn:
                    els.append(R.tok(conn))
                els += [R.sto(lt2, [f"[<{idp}]CO[>]"], [], "[<]", d2[1]), R.tok("F")]
                yield ("mol", {"elements": els, "mixture": [None, "5e3"][k % 2]}, (d1, d2))
    # several weights whose text ends in a dot (the two characters '.|' also open a mixture specifier) in ONE molecule,
    # on repeat units, end groups, terminals and prefix tokens, with every kind of mixture tail
    dotted = [["[<|2.|]CC[>|3.|]"], ["[<|2.|]CC[>|3.|]", "[<|4.|]CO[>|1.|]"], ["[<|2.|]CC[>]", "[<]CO[>|5.|]", "[<|1.e1|]CS[>|7.|]"]]
    for rep in dotted:
        for endg in ([], ["[<|6.|]Cl"], ["[<|6.|]Cl", "[>|8.|]N"]):
            for pre, lt in (("", "[]"), ("N", "[>]"), ("CC[>|0.|]", "[>|2.|]")):
                for mix in (None, "5e3", "25%", "12."):
                    if lt == "[]" and not any(t.startswith("[>") for t in endg):
                        continue
                    k += 1
                    d1 = dists[k % len(dists)]
                    els = ([R.tok(pre)] if pre else []) + [R.sto(lt, rep, endg, "[<]" if True else "[]", d1[1]), R.tok("F")]
                    yield ("mol", {"elements": els, "mixture": mix}, (d1,))


def enumerate_cases(tier, seed):
    toks = token_universe(tier, seed)
    step = 400
    for lo in range(0, len(toks), step):
        yield ("tokens", {"tokens": toks[lo : lo + step]})
    specs = list(higher_specs(tier, seed))
    step = 150
    for lo in range(0, len(specs), step):
        yield ("higher", {"tier": tier, "seed": seed, "lo": lo, "hi": lo + step})
    yield ("numbers", {})


# ------------------------------------------------------------------ comparisons


def cmp_desc(res, ctx, bd, d, check_atom=True):
    """compare a library descriptor with the reference reading; returns number of attributes compared"""
    import numpy as np

    probs = []
    if bd.descriptor != d.symbol:
        probs.append(("symbol", bd.descriptor, d.symbol))
    idv = None if bd.descriptor_id == "" else bd.descriptor_id
    if idv != d.id:
        probs.append(("id", bd.descriptor_id, d.id))
    if abs(float(bd.weight) - d.weight) > 1e-12:
        probs.append(("weight", bd.weight, d.weight))
    tr = None if bd.transitions is None else [float(x) for x in np.asarray(bd.transitions)]
    if tr != d.transitions:
        probs.append(("transitions", tr, d.transitions))
    if d.symbol != "":
        if check_atom and bd.atom_bonding_to != d.atom:
            probs.append(("atom", bd.atom_bonding_to, d.atom))
        if int(bd.bond_type) != BT[d.order]:
            probs.append(("order", int(bd.bond_type), BT[d.order]))
    return probs


def shape_class(text, k):
    """coarse class of where descriptor k sits in the token text (for finding keys)"""
    tr = R.token_ref(text)
    s, e = tr.descs[k].span
    before = text[:s]
    after = text[e:]
    pre = before[-2:] if before else "^"
    post = after[:2] if after else "$"
    cls = []
    if not before.strip("=#"):
        cls.append("leading")
    if not after:
        cls.append("trailing")
    if before.endswith(")(") or before.endswith(")(=") or before.endswith(")(#"):
        cls.append("branch-after-branch")
    elif before.endswith("(") or before.endswith("(=") or before.endswith("(#"):
        cls.append("in-branch")
    if after.startswith(")[") or after.startswith(")("):
        cls.append("followed-by-descriptor-or-branch")
    if before.endswith("]") and before.rstrip("=#")[-1:] == "]" and R.DESC_RE.search(before[-12:]):
        cls.append("after-descriptor")
    return "+".join(cls) or "inner"


def eval_tokens(res, tokens):
    import gbigsmiles
    from rdkit import Chem

    classes = set()
    for text in tokens:
        tr = R.token_ref_or_none(text)
        if tr is None:
            res["extra"]["skipped_reference_rejects"] = res["extra"].get("skipped_reference_rejects", 0) + 1
            continue
        if tr.degenerate:
            res["extra"]["skipped_degenerate"] = res["extra"].get("skipped_degenerate", 0) + 1
            continue
        res["states"] += 1
        res["traces"] += 1
        try:
            tok = gbigsmiles.SmilesToken(text, 0, 0)
        except Exception as e:  # noqa
            viol(res, f"C02|token-rejected|{type(e).__name__}|{shape_class(text, 0) if tr.descs else 'no-desc'}", f"legal token {text!r} is rejected: {type(e).__name__}: {str(e)[:80]}", {"text": text})
            continue
        bds = tok.bond_descriptors
        if len(bds) != len(tr.descs):
            viol(res, f"C02|descriptor-count|{len(bds)}vs{len(tr.descs)}", f"token {text!r}: {len(bds)} descriptors parsed, {len(tr.descs)} written", {"text": text})
            continue
        for k, (bd, d) in enumerate(zip(bds, tr.descs)):
            res["transitions"] += 6
            for (attr, got, exp) in cmp_desc(res, text, bd, d):
                if attr == "atom" and got == d.written_atom and tr.n_written_atoms != tr.natoms:
                    viol(res, "C02|atom|explicit-hydrogen-shifts-index", f"token {text!r} descriptor {k} ({d.text}): bound to atom {got} counting the written [H], but the fragment the library generates from has merged that hydrogen: the descriptor belongs to atom {exp}", {"text": text, "k": k})
                    continue
                viol(res, f"C02|{attr}|{shape_class(text, k)}", f"token {text!r} descriptor {k} ({d.text}): {attr} is {got!r}, the notation denotes {exp!r}", {"text": text, "k": k})
            classes.add(shape_class(text, k))
            if bd.descriptor_num != k:
                viol(res, "C02|descriptor_num", f"token {text!r}: descriptor {k} numbered {bd.descriptor_num}", {"text": text})
        # atoms and internal bonds
        try:
            frag = tok.generate_smiles_fragment()
            p = Chem.SmilesParserParams()
            p.removeHs = False
            m = Chem.MolFromSmiles(frag, p)
            if m is None:
                raise ValueError("fragment is not SMILES")
            m = Chem.RemoveHs(m)  # what generation does with the fragment
            atoms = [(a.GetAtomicNum(), a.GetFormalCharge(), a.GetIsotope(), a.GetIsAromatic()) for a in m.GetAtoms()]
            bonds = sorted((min(b.GetBeginAtomIdx(), b.GetEndAtomIdx()), max(b.GetBeginAtomIdx(), b.GetEndAtomIdx()), R.BOND_ORDER.get(b.GetBondType(), b.GetBondTypeAsDouble())) for b in m.GetBonds())
            res["transitions"] += 2
            if atoms != tr.atoms or bonds != tr.bonds:
                has_order = any(d.order != 1.0 for d in tr.descs)
                viol(res, f"C02|fragment|{'bond-prefix' if has_order else 'plain'}", f"token {text!r}: fragment {frag!r} has atoms/bonds {atoms}/{bonds}, the notation denotes {tr.atoms}/{tr.bonds}", {"text": text})
        except Exception as e:  # noqa
            has_order = any(d.order != 1.0 for d in tr.descs)
            viol(res, f"C02|fragment-invalid|{'bond-prefix' if has_order else 'plain'}", f"token {text!r}: fragment cannot be read: {type(e).__name__} {str(e)[:60]}", {"text": text})
        if len(tok.atoms) != tr.n_written_atoms:
            viol(res, "C02|atom-count", f"token {text!r}: {len(tok.atoms)} atoms parsed, {tr.natoms} written", {"text": text})
    res["outcomes"] = sorted(classes)
    res["nontrivial"] = [tokens[0], len(tokens)]
    res["sample"] = {"tokens": tokens[:3]}


def dist_numbers(obj):
    import re

    s = str(obj)
    m = re.match(r"^\|(\w+)\((.*)\)\|$", s)
    if not m:
        return None
    return m.group(1), tuple(float(x) for x in m.group(2).split(","))


def cmp_sto(res, text, st, el, dref, ctx="sto"):
    """compare a parsed Stochastic with its description"""
    n = 0
    for side, attr in (("left", "left_terminal"), ("right", "right_terminal")):
        d = R.terminal_ref(el[side])
        for (a, got, exp) in cmp_desc(res, text, getattr(st, attr), d, check_atom=False):
            viol(res, f"C02|{ctx}-terminal-{a}", f"{text!r}: {side} terminal {el[side]}: {a} is {got!r}, denotes {exp!r}", {"text": text})
        n += 5
    for lst, attr, name in ((el["rep"], "repeat_tokens", "repeat"), (el["end"], "end_tokens", "end")):
        got = getattr(st, attr)
        if len(got) != len(lst):
            viol(res, f"C02|{ctx}-{name}-count", f"{text!r}: {len(got)} {name} tokens parsed, {len(lst)} written", {"text": text})
            continue
        for tk, ttext in zip(got, lst):
            tr = R.token_ref(ttext)
            n += 1
            if len(tk.bond_descriptors) != len(tr.descs) or any(cmp_desc(res, text, bd, d) for bd, d in zip(tk.bond_descriptors, tr.descs)):
                viol(res, f"C02|{ctx}-{name}-token", f"{text!r}: {name} token {ttext!r} parsed as {str(tk)!r} with different descriptors", {"text": text})
    # descriptor numbering over the object: repeat then end, consecutive
    nums = [bd.descriptor_num for bd in st.bond_descriptors]
    if nums != list(range(len(nums))):
        viol(res, f"C02|{ctx}-descriptor-numbering", f"{text!r}: descriptors numbered {nums}", {"text": text})
    if dref is None:
        if st.distribution is not None:
            viol(res, f"C02|{ctx}-distribution-spurious", f"{text!r}: a distribution was parsed but none written", {"text": text})
    else:
        got = dist_numbers(st.distribution) if st.distribution is not None else None
        exp = (dref[0], tuple(float(x) for x in dref[2]))
        n += 1
        if got is None or got[0] != exp[0] or len(got[1]) != len(exp[1]) or any(abs(a - b) > 1e-9 * max(1, abs(b)) for a, b in zip(got[1], exp[1])):
            viol(res, f"C02|{ctx}-distribution|{dref[0]}", f"{text!r}: distribution parsed as {got}, written {dref[1]}", {"text": text})
    return n


def eval_higher(res, data):
    import gbigsmiles

    specs = list(higher_specs(data["tier"], data["seed"]))[data["lo"] : data["hi"]]
    fmts = G.FORMATS if data["tier"] == "thorough" else G.FORMATS[:2] + G.FORMATS[2:3]
    kinds = set()
    for kind, spec, dref in specs:
        for fi, fmt in enumerate(fmts):
            if kind == "sto":
                text = G.print_sto_fmt(spec, fmt)
                res["states"] += 1
                res["traces"] += 1
                try:
                    st = gbigsmiles.Stochastic(text, 0)
                except Exception as e:  # noqa
                    viol(res, f"C02|sto-rejected|{type(e).__name__}|fmt{fi}", f"legal stochastic object {text!r} rejected: {type(e).__name__}: {str(e)[:80]}", {"text": text})
                    continue
                res["transitions"] += cmp_sto(res, text, st, spec, dref)
                kinds.add(f"sto:{len(spec['rep'])}:{len(spec['end'])}:{spec['left']}:{spec['right']}")
            else:
                text = G.print_spec_fmt(spec, fmt)
                nspec = R.normalize(spec)
                res["states"] += 1
                res["traces"] += 1
                try:
                    mol = gbigsmiles.Molecule(text)
                except Exception as e:  # noqa
                    viol(res, f"C02|mol-rejected|{type(e).__name__}", f"legal molecule {text!r} rejected: {type(e).__name__}: {str(e)[:80]}", {"text": text})
                    continue
                els = mol.elements
                if len(els) != len(nspec["elements"]):
                    viol(res, "C02|mol-element-count", f"{text!r}: {len(els)} elements parsed, {len(nspec['elements'])} written", {"text": text})
                    continue
                di = 0
                for e_impl, e_ref in zip(els, nspec["elements"]):
                    res["transitions"] += 1
                    if e_ref["k"] == "tok":
                        if not isinstance(e_impl, gbigsmiles.SmilesToken):
                            viol(res, "C02|mol-element-kind", f"{text!r}: token {e_ref['text']} parsed as {type(e_impl).__name__}", {"text": text})
                            continue
                        tr = R.token_ref(e_ref["text"])
                        if len(e_impl.bond_descriptors) != len(tr.descs) or any(cmp_desc(res, text, bd, d) for bd, d in zip(e_impl.bond_descriptors, tr.descs)):
                            viol(res, "C02|mol-token-descriptors", f"{text!r}: token element {e_ref['text']!r} parsed as {str(e_impl)!r}", {"text": text})
                    else:
                        if not isinstance(e_impl, gbigsmiles.Stochastic):
                            viol(res, "C02|mol-element-kind", f"{text!r}: stochastic object parsed as {type(e_impl).__name__}", {"text": text})
                            continue
                        res["transitions"] += cmp_sto(res, text, e_impl, e_ref, dref[di], ctx="mol-sto")
                        di += 1
                # mixture
                mx = spec.get("mixture")
                if mx is None:
                    if mol.mixture is not None:
                        viol(res, "C02|mixture-spurious", f"{text!r}: mixture parsed but none written", {"text": text})
                else:
                    if mol.mixture is None:
                        viol(res, "C02|mixture-missing", f"{text!r}: mixture not parsed", {"text": text})
                    elif mx.endswith("%"):
                        if mol.mixture.relative_mass is None or abs(mol.mixture.relative_mass - float(mx[:-1])) > 1e-9 or mol.mixture.absolute_mass is not None:
                            viol(res, "C02|mixture-percent", f"{text!r}: mixture {mx} parsed as rel={mol.mixture.relative_mass} abs={mol.mixture.absolute_mass}", {"text": text})
                    else:
                        if mol.mixture.absolute_mass is None or abs(mol.mixture.absolute_mass - float(mx)) > 1e-9 * float(mx) or mol.mixture.relative_mass is not None:
                            viol(res, "C02|mixture-absolute", f"{text!r}: mixture {mx} parsed as rel={mol.mixture.relative_mass} abs={mol.mixture.absolute_mass}", {"text": text})
                kinds.add(f"mol:{len(spec['elements'])}:{mx}")
    res["outcomes"] = sorted(kinds)
    res["nontrivial"] = ["higher", data["lo"]]
    if specs:
        res["sample"] = {"higher": G.print_sto_fmt(specs[0][1], fmts[0]) if specs[0][0] == "sto" else G.print_spec_fmt(specs[0][1], fmts[0])}


def eval_numbers(res):
    """every numeric slot x every number text of the menu: the parsed value is exactly the number written"""
    import gbigsmiles

    from ..scripted import ScriptedGenerator

    P = {"desc": lambda s: gbigsmiles.BondDescriptor(s, 0, "", 0), "sto": lambda s: gbigsmiles.Stochastic(s, 0), "sys": gbigsmiles.System}
    for level, lst in G.number_strings().items():
        for (s, slot, n) in lst:
            exp = float(n)
            st, o = run_limited(P[level], (s,), 20)
            res["traces"] += 1
            res["states"] += 1
            if st != "ok":
                viol(res, f"C02|number-rejected|{slot.split(':')[0]}", f"{level} {s!r} is rejected: {o}", {"text": s})
                continue
            got = None
            if slot == "weight":
                got = [("weight", float(o.weight), exp)]
            elif slot == "list-entry":
                got = [("first list entry", float(o.transitions[0]), exp), ("list total", float(o.weight), exp + 1.5)]
            elif slot == "weight-in-object":
                got = [("weight", float(o.repeat_tokens[0].bond_descriptors[0].weight), exp)]
            elif slot == "absolute-mass":
                got = [("absolute mass", float(o._molecules[0].mixture.absolute_mass), exp)]
            elif slot == "percent":
                got = [("percentage", float(o._molecules[0].mixture.relative_mass), exp)]
            elif slot == "absolute-mass-2":
                got = [("absolute mass", float(o._molecules[1].mixture.absolute_mass), exp)]
            elif slot.startswith("dist:"):
                tpl = slot[5:]
                fam = tpl.split("(")[0]
                args = [a.strip() for a in tpl[tpl.index("(") + 1 : -1].split(",")]
                want = [exp if a == "{0}" else float(a) for a in args]
                if fam == "uniform":
                    want = [float(int(x)) for x in want]  # documented as integer bounds
                dn = dist_numbers(o.distribution)
                if dn is None or dn[0] != fam or len(dn[1]) != len(want):
                    viol(res, f"C02|number-dist-form|{fam}", f"{s!r}: distribution reads back as {o.distribution}", {"text": s})
                    continue
                got = [(f"{fam} parameter {i + 1}", dn[1][i], want[i]) for i in range(len(want))]
                # what the draw asks of the generator (the parameters in use, not only the printed ones)
                if fam == "uniform":
                    for u, k in ((0.0, 0), (1.0, 1)):
                        rng = ScriptedGenerator((), menu=(u,))
                        stt, v = run_limited(o.distribution.draw_mw, (rng,), 10)
                        res["transitions"] += 1
                        if stt == "ok":
                            got += [(f"uniform draw at quantile {u:g}", float(v), want[k])]
                if fam in ("gauss", "poisson"):
                    rng = ScriptedGenerator((), menu=(0.5,))
                    stt, v = run_limited(o.distribution.draw_mw, (rng,), 10)
                    res["transitions"] += 1
                    if stt == "ok" and rng.points:
                        info = rng.points[0].info or {}
                        if fam == "poisson" and "lam" in info:
                            got += [("poisson mean requested at the generator", info["lam"], want[0])]
                        if fam == "gauss":
                            got += [("gauss draw at the median", float(v), want[0])]
            for (name, a, b) in got or []:
                res["transitions"] += 1
                if a != b and not (abs(a - b) <= 1e-12 * max(1.0, abs(b))):
                    viol(res, f"C02|number-value|{slot.split(':')[0]}", f"{level} {s!r}: {name} is {a!r}, written {n} denotes {b!r}", {"text": s})
    res["nontrivial"] = "numbers"
    res["sample"] = {"numbers": len(G.NUMBER_TEXTS), "slots": 17}


def eval_case(kind, data):
    res = new_result()
    if kind == "numbers":
        eval_numbers(res)
    elif kind == "tokens":
        eval_tokens(res, data["tokens"])
    else:
        eval_higher(res, data)
    res["evals"] = res["traces"]
    return res
