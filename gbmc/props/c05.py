"""C05 - a tree of whole, unmodified token copies.
All choice sequences of every bounded instance are executed on the real generator; see gbmc/genexp.py."""
from . import _gen
from ._gen import ANCHORS, ASSUMPTIONS  # noqa

LEVEL_RULE = (
    "stateless exploration of the real Molecule.generate under a scripted random generator: every choice sequence of every "
    "bounded archetype instance is executed (states = choice points visited + reference-model states, transitions = answers "
    "taken + model transitions, traces = complete executions judged); non-trivial = distinct instances with at least one execution"
)
BOUNDS = {"quick": "8 documented full-size strings at deviation bound 1 (all of them at bound 2 in thorough); archetype families with core parameter slice, targets <= 3 units, <= 12000 executions per instance (none reaches it: complete choice trees)", "thorough": "full parameter domains, <= 60000 executions / 900 s per instance"}
CASE_TIMEOUT = {"quick": 900, "thorough": 3000}


def enumerate_cases(tier, seed):
    yield from _gen.cases(tier, seed)
    yield from _gen.corpus_cases(tier, seed)


def eval_case(kind, data):
    return _gen.evaluate("C05", ("C04", "C05"), data)
