"""C03 - bond-descriptor compatibility is exactly the BigSMILES conjugation rule.

The property's universe is finite and is enumerated completely: every descriptor
{[], $, <, >} x ids {none, 0..12} x bond prefixes {none, -, =, #, :} x weight forms {none, scalar, list},
each built through every construction route the library offers (constructor, token parser, terminal of a
stochastic object), and every ORDERED pair of them.  Model = the closed-form relation of the statement.
"""
import itertools

from ..common import new_result, viol

ANCHORS = ["src/gbigsmiles/bond.py", "src/gbigsmiles/core.py"]
LEVEL_RULE = (
    "complete enumeration of the descriptor universe and of all ordered pairs; a state is one descriptor object "
    "(per construction route), a transition one ordered pair evaluated with is_compatible on the real objects and "
    "compared with the conjugation relation; non-trivial = distinct (symbol pair, id relation, bond relation, weight forms) classes"
)
ASSUMPTIONS = ["RDKit BondType enum values distinguish single/double/triple/aromatic bond orders"]
EXHAUSTIVE = True
BOUNDS = {
    "quick": "symbols 4 x ids {none,0..20,99,007} x weights {none,scalar,list,zero} x prefixes {none,-,=,#,:} x weights {none,scalar,list}; all ordered pairs; 7 construction routes (constructor, token parser x2, terminal, deepcopy, Molecule.elements copy, MolGen copy) + temporaries with short lifetimes",
    "thorough": "as quick plus ids {21..32, 100, 255, 1000, 00, 012}, tiny scalar weight",
}
CASE_TIMEOUT = {"quick": 300, "thorough": 900}

SYMS = ["", "$", "<", ">"]
PREF = ["", "-", "=", "#", ":"]
ORDER = {"": 1, "-": 1, "=": 2, "#": 3, ":": 1.5}


def universe(tier):
    ids = [None] + list(range(13)) + list(range(13, 21)) + [99, "007"]
    if tier == "thorough":
        ids += list(range(21, 33)) + [100, 255, 1000, "00", "012"]
    wforms = ["none", "scalar", "list", "zero"]
    if tier == "thorough":
        wforms += ["tiny"]
    out = []
    for sym in SYMS:
        if sym == "":
            out.append(("", None, "", "none"))
            continue
        for i, pre, w in itertools.product(ids, PREF, wforms):
            out.append((sym, i, pre, w))
    return out


def text_of(d):
    sym, i, pre, w = d
    if sym == "":
        return "[]"
    t = "[" + sym + ("" if i is None else str(i))
    if w == "scalar":
        t += "|2.5|"
    elif w == "zero":
        t += "|0|"
    elif w == "tiny":
        t += "|1e-9|"
    elif w == "list":
        t += "|1 0 3.5|"
    return t + "]"


def model_id(d):
    i = d[1]
    return None if i is None else int(i)


def model_compatible(a, b):
    if a[0] == "" or b[0] == "":
        return False
    if model_id(a) != model_id(b):
        return False
    if ORDER[a[2]] != ORDER[b[2]]:
        return False
    return (a[0], b[0]) in (("$", "$"), ("<", ">"), (">", "<"))


def build(d, route):
    """Return the library object for descriptor d through a construction route (or None if the
    route does not apply)."""
    import gbigsmiles

    sym, i, pre, w = d
    txt = text_of(d)
    if route == "ctor":
        return gbigsmiles.BondDescriptor(txt, 0, pre, 0)
    if route == "ctor_inline":  # prefix characters inside the text, empty preceding_characters
        if sym == "":
            return gbigsmiles.BondDescriptor(txt, 0, "", None)
        return gbigsmiles.BondDescriptor(pre + txt, 0, "", 0) if False else None
    if route == "token":
        if sym == "":
            return None
        tok = gbigsmiles.SmilesToken("C" + pre + txt, 0, 0)
        assert len(tok.bond_descriptors) == 1
        return tok.bond_descriptors[0]
    if route == "token_lead":
        if sym == "":
            return None
        tok = gbigsmiles.SmilesToken(txt + pre + "C", 0, 0)
        assert len(tok.bond_descriptors) == 1
        return tok.bond_descriptors[0]
    if route == "deepcopy":
        import copy

        return copy.deepcopy(gbigsmiles.BondDescriptor(txt, 0, pre, 0))
    if route == "molgen":
        # the copy a growing molecule works with
        if sym == "" or pre in (":",) or w == "list":
            return None
        tok = gbigsmiles.SmilesToken("C" + pre + txt, 0, 0)
        if not tok.generable:
            return None
        from gbigsmiles.mol_gen import MolGen

        return MolGen(tok).bond_descriptors[0]
    if route == "elements":
        # the copy handed out by Molecule.elements
        if sym == "" or w == "list":
            return None
        return gbigsmiles.Molecule("C" + pre + txt).elements[0].bond_descriptors[0]
    if route == "terminal":
        if pre != "" or w == "list":
            return None
        if sym == "":
            st = gbigsmiles.Stochastic("{[][$]CC[$]; [$][H][]}", 0)
            return st.right_terminal
        st = gbigsmiles.Stochastic("{" + txt + "[$]CC[$]" + txt + "}", 0)
        return st.left_terminal
    raise ValueError(route)


ROUTES = ["ctor", "token", "token_lead", "terminal", "deepcopy", "elements", "molgen"]
_CACHE = {}
BUILD_ERRORS = []


def objects(tier):
    if tier in _CACHE:
        return _CACHE[tier]
    uni = universe(tier)
    objs = []
    for d in uni:
        for r in ROUTES:
            try:
                o = build(d, r)
            except Exception as e:  # noqa  (reported as a violation by the 'routes' case, not a harness failure)
                BUILD_ERRORS.append((d, r, f"{type(e).__name__}: {str(e)[:80]}"))
                continue
            if o is not None:
                objs.append((d, r, o))
    _CACHE[tier] = (uni, objs)
    return _CACHE[tier]


def enumerate_cases(tier, seed):
    uni = universe(tier)
    n = len(uni)
    step = 20
    for lo in range(0, n, step):
        yield ("pairs", {"tier": tier, "lo": lo, "hi": min(n, lo + step)})
    yield ("filter", {"tier": tier})
    for lo in range(0, n, 40):
        yield ("temporaries", {"tier": tier, "lo": lo, "hi": min(n, lo + 40)})


def klass(a, b, ra, rb, got):
    ida = "same" if model_id(a) == model_id(b) else "diff"
    bo = "same" if ORDER[a[2]] == ORDER[b[2]] else "diff"
    return f"C03|is_compatible|sym={a[0] or '[]'},{b[0] or '[]'}|id={ida}|bond={bo}|w={a[3]},{b[3]}|route={ra},{rb}|got={got}"


def eval_case(kind, data):
    res = new_result()
    tier = data["tier"]
    uni, objs = objects(tier)
    if kind == "pairs":
        first = set(uni[data["lo"] : data["hi"]])
        classes = set()
        npairs = 0
        nstates = 0
        for (a, ra, oa) in objs:
            if a not in first:
                continue
            nstates += 1
            for (b, rb, ob) in objs:
                npairs += 1
                exp = model_compatible(a, b)
                try:
                    got = bool(oa.is_compatible(ob))
                except Exception as e:  # noqa
                    got = f"raises {type(e).__name__}"
                classes.add((a[0], b[0], model_id(a) == model_id(b), ORDER[a[2]] == ORDER[b[2]], a[3], b[3]))
                if got != exp:
                    viol(res, klass(a, b, ra, rb, got), f"is_compatible({a[2]}{text_of(a)} via {ra}, {b[2]}{text_of(b)} via {rb}) = {got}, conjugation rule says {exp}",
                         {"a": a, "b": b, "routes": [ra, rb]})
                    continue
                # symmetry on the very same objects
                try:
                    back = bool(ob.is_compatible(oa))
                except Exception as e:  # noqa
                    back = f"raises {type(e).__name__}"
                if back != got:
                    viol(res, klass(a, b, ra, rb, f"asymmetric:{got}/{back}"), f"is_compatible not symmetric for {a[2]}{text_of(a)} / {b[2]}{text_of(b)}: {got} vs {back}", {"a": a, "b": b})
        res["states"] = nstates
        res["transitions"] = npairs
        res["traces"] = npairs
        res["evals"] = npairs
        res["nontrivial"] = sorted(map(str, classes))[:1] + [len(classes), data["lo"]]
        res["outcomes"] = [str(c) for c in classes]
        res["sample"] = {"first": str(uni[data["lo"]]), "text": text_of(uni[data["lo"]]), "pairs_checked": npairs}
        return res
    if kind == "temporaries":
        # object lifetimes: a long-lived descriptor is asked about partners that are created, used once and freed
        # (in CPython the next temporary usually reuses the address of the previous one)
        import gc

        npairs = 0
        nstates = 0
        for a in uni[data["lo"] : data["hi"]]:
            oa = build(a, "ctor")
            nstates += 1
            for b in uni:
                ob = build(b, "ctor")
                exp = model_compatible(a, b)
                got = bool(oa.is_compatible(ob))
                back = bool(ob.is_compatible(oa))
                npairs += 1
                if got != exp or back != exp:
                    viol(res, klass(a, b, "ctor", "temporary", got if got != exp else f"reverse:{back}"), f"is_compatible({a[2]}{text_of(a)}, temporary {b[2]}{text_of(b)}) = {got} / reverse {back}, conjugation rule says {exp} (the partner was created after earlier partners of the same descriptor had been freed)", {"a": a, "b": b})
                del ob
        res["states"] = nstates
        res["transitions"] = npairs
        res["traces"] = npairs
        res["evals"] = npairs
        res["nontrivial"] = ["temporaries", data["lo"]]
        res["sample"] = {"long_lived": text_of(uni[data["lo"]]), "temporary_partners": len(uni)}
        return res
    if kind == "filter":
        from gbigsmiles.core import get_compatible_bond_descriptor_ids

        lst = [o for (_, _, o) in objs]
        descs = [d for (d, _, _) in objs]
        stride = 1
        n = 0
        for k in range(0, len(objs), stride):
            a, ra, oa = objs[k]
            got = [int(x) for x in get_compatible_bond_descriptor_ids(lst, oa)]
            exp = [j for j, b in enumerate(descs) if model_compatible(a, b)]
            n += 1
            if got != exp:
                viol(res, f"C03|filter|sym={a[0] or '[]'}|pre={a[2]}|route={ra}", f"get_compatible_bond_descriptor_ids(universe, {a[2]}{text_of(a)}) returns {len(got)} indices, model {len(exp)}", {"a": a})
        got = [int(x) for x in get_compatible_bond_descriptor_ids(lst, None)]
        if got != list(range(len(lst))):
            viol(res, "C03|filter|bond=None", "bond=None does not select every descriptor", None)
        res["states"] = n
        res["transitions"] = n * len(lst)
        res["traces"] = n
        res["evals"] = n
        res["nontrivial"] = ["filter", n]
        res["sample"] = {"filter_queries": n, "universe_objects": len(lst)}
        for d, r, err in BUILD_ERRORS[:5]:
            viol(res, f"C03|construction-route-raises|{r}", f"building {d[2]}{text_of(d)} through route {r} raises {err}", {"d": d, "route": r})
        return res
    raise ValueError(kind)
