"""C01 - canonical notation round-trips: fixed point, same object, extensions erasable.

For every accepted string s of the bounded grammar (C02's universe), of the archetype families, and of the corpus
extracted at run time from README.md / SI.md / tests, the chain
    s -> parse -> c = str -> parse -> c' = str ;  n = generate_string(False) ; parse(n)
is executed on the real code: the state reached from s is compared with the state reached from the printed string
(differential oracle, no expected text written by hand).
"""
import ast
import os
import re

from .. import grammar as G
from .. import refsem as R
from ..common import REPO, new_result, run_limited, viol
from . import c02

ANCHORS = ["src/gbigsmiles/bond.py", "src/gbigsmiles/token.py", "src/gbigsmiles/stochastic.py", "src/gbigsmiles/molecule.py", "src/gbigsmiles/system.py", "src/gbigsmiles/mixture.py", "src/gbigsmiles/distribution.py", "src/gbigsmiles/core.py"]
LEVEL_RULE = (
    "every string of the bounded grammar / archetype families / run-time corpus that the parser accepts is taken through parse-print-parse-print "
    "and print-without-extensions-parse; state = one parsed object (structural fingerprint), transition = one parse or print step, trace = one "
    "complete chain on the real code; non-trivial = distinct accepted strings"
)
ASSUMPTIONS = [
    "floats are compared numerically (1e-9 relative) - the canonical text may write 2 as 2.0",
    "strings the parser rejects are outside the quantifier (counted)",
    "seeded generation equality is checked on instances whose generation takes < 5 s",
]
BOUNDS = {"quick": "C02 quick universe + archetype families + corpus (README, SI.md, tests)", "thorough": "C02 thorough universe, all formats + archetype families (thorough) + corpus"}
CASE_TIMEOUT = {"quick": 400, "thorough": 3000}


def erase(s):
    """independent eraser: drop every |...| segment (state machine over '|')"""
    out = []
    inside = False
    for ch in s:
        if ch == "|":
            inside = not inside
            continue
        if not inside:
            out.append(ch)
    return "".join(out), inside


def corpus():
    """strings documented in README.md, SI.md and tests/*.py, extracted at run time from the working tree"""
    found = []
    tdir = os.path.join(REPO, "tests")
    for fn in sorted(os.listdir(tdir)):
        if fn.endswith(".py"):
            try:
                tree = ast.parse(open(os.path.join(tdir, fn)).read())
            except SyntaxError:
                continue
            for node in ast.walk(tree):
                if isinstance(node, ast.Constant) and isinstance(node.value, str):
                    found.append(node.value)
    for fn in ("README.md", "SI.md"):
        try:
            txt = open(os.path.join(REPO, fn)).read()
        except OSError:
            continue
        found += re.findall(r'"([^"\n]{2,})"', txt)
        found += re.findall(r"`([^`\n]{2,})`", txt)
    out = []
    seen = set()
    for s in found:
        s = s.strip()
        if s in seen or len(s) > 1500:
            continue
        if not (("{" in s and "}" in s) or re.search(r"\[[$<>]", s) or ".|" in s):
            continue
        if " + " in s or "import" in s:
            continue
        seen.add(s)
        out.append(s)
    return out


def fam_texts(tier, seed):
    from ..instances import families

    return [i.text for i in families(tier, seed)]


def enumerate_cases(tier, seed):
    toks = c02.token_universe(tier, seed)
    step = 400
    for lo in range(0, len(toks), step):
        yield ("strings", {"level": "token", "strings": toks[lo : lo + step]})
    descs = []
    for pre in ["", "-", "=", "#"]:
        for t in G.desc_texts(2) + ["[]"]:
            descs.append(pre + t)
    yield ("strings", {"level": "desc", "strings": descs})
    specs = list(c02.higher_specs(tier, seed))
    fmts = G.FORMATS if tier == "thorough" else G.FORMATS[:3]
    sto_s, mol_s = [], []
    for kind, spec, dref in specs:
        for fmt in fmts:
            (sto_s if kind == "sto" else mol_s).append(G.print_sto_fmt(spec, fmt) if kind == "sto" else G.print_spec_fmt(spec, fmt))
    step = 120
    for lo in range(0, len(sto_s), step):
        yield ("strings", {"level": "sto", "strings": sto_s[lo : lo + step]})
    for lo in range(0, len(mol_s), step):
        yield ("strings", {"level": "mol", "strings": mol_s[lo : lo + step]})
        yield ("strings", {"level": "sys", "strings": mol_s[lo : lo + step]})
    for level, lst in G.number_strings().items():
        yield ("strings", {"level": level, "strings": [x[0] for x in lst]})
    fam = fam_texts(tier, seed)
    step = 12
    for lo in range(0, len(fam), step):
        yield ("strings", {"level": "mol", "strings": fam[lo : lo + step], "gen": True})
    cp = corpus()
    step = 8
    for lo in range(0, len(cp), step):
        yield ("strings", {"level": "any", "strings": cp[lo : lo + step], "gen": True})
    # multi-component systems
    comps = ["CCO", "N{[>][<]CC[>][<]}|gauss(40, 0)|F", "{[][$]CC[$]; [$][H][]}|uniform(20, 60)|", "c1ccccc1"]
    mixes = [".|50%|", ".|10.0%|", ".|200|", ".|5e2|", "."]
    syss = []
    for a in range(len(comps)):
        for b in range(len(comps)):
            for ma in mixes[:4]:
                for mb in mixes:
                    syss.append(comps[a] + ma + comps[b] + mb)
    syss += [c + m for c in comps for m in mixes[:4]]
    syss += ["CCO.|30%|N{[>][<]CC[>][<]}|gauss(40, 0)|F.|20%|c1ccccc1.|1000|", "CCO.|300|CC.|700|", "CCO.|30%|CC.|70%|"]
    step = 60
    for lo in range(0, len(syss), step):
        yield ("strings", {"level": "sys", "strings": syss[lo : lo + step], "gen": lo == 0})


# ------------------------------------------------------------------ fingerprints


def num(x):
    if x is not None and float(x) != float(x):
        return "nan"
    return None if x is None else round(float(x), 9) if abs(float(x)) < 1e6 else float(f"{float(x):.9e}")


def dist_probe(fam, dist):
    """what the distribution DOES: draws at fixed quantiles through a scripted generator (families whose draw is a
    closed-form transform) and point probabilities at fixed masses"""
    from ..scripted import ScriptedGenerator

    out = []
    if fam in ("gauss", "uniform", "log_normal", "poisson"):
        for u in (0.1, 0.5, 0.9):
            st, v = run_limited(lambda: float(dist.draw_mw(ScriptedGenerator((), menu=(u,)))), (), 5)
            out.append((st, num(v) if st == "ok" else None))
    for mw in (1, 50, 500, 5000, 3120470):
        st, v = run_limited(lambda: float(dist.prob_mw(mw)), (), 5)
        out.append((st, num(v) if st == "ok" else None))
    return tuple(out)


def fp(o, ext=True):
    import gbigsmiles

    if isinstance(o, gbigsmiles.BondDescriptor):
        base = (o.descriptor, str(o.descriptor_id), int(o.bond_type), getattr(o, "atom_bonding_to", None))
        if ext:
            base += (num(o.weight), None if o.transitions is None else tuple(num(x) for x in o.transitions))
        return base
    if isinstance(o, gbigsmiles.SmilesToken):
        return ("tok", o.generate_smiles_fragment(), tuple(fp(b, ext) for b in o.bond_descriptors))
    if isinstance(o, gbigsmiles.Stochastic):
        d = c02.dist_numbers(o.distribution) if (ext and o.distribution is not None) else None
        if d is not None:
            # printed parameters AND behaviour (a printer that loses digits prints the same text for both objects)
            d = (d[0], tuple(num(x) for x in d[1]), dist_probe(d[0], o.distribution))
        return ("sto", fp(o.left_terminal, ext), fp(o.right_terminal, ext), tuple(fp(t, ext) for t in o.repeat_tokens), tuple(fp(t, ext) for t in o.end_tokens), d)
    if isinstance(o, gbigsmiles.Molecule):
        mx = None
        if o.mixture is not None:
            mx = (num(o.mixture.absolute_mass), num(o.mixture.relative_mass), num(o.mixture.system_mass)) if ext else "mix"
        return ("mol", tuple(fp(e, ext) for e in o.elements), mx)
    if isinstance(o, gbigsmiles.System):
        return ("sys", tuple(fp(m, ext) for m in o._molecules), bool(o.generable))
    raise TypeError(type(o))


def ctor(level):
    import gbigsmiles

    return {
        "desc": lambda s: gbigsmiles.BondDescriptor(s, 0, "", 0),
        "token": lambda s: gbigsmiles.SmilesToken(s, 0, 0),
        "sto": lambda s: gbigsmiles.Stochastic(s, 0),
        "mol": lambda s: gbigsmiles.Molecule(s),
        "sys": lambda s: gbigsmiles.System(s),
    }[level]


def shape_of(level, s):
    """coarse class of an input for finding keys"""
    if level in ("mol", "sys"):
        feats = []
        if re.search(r"\}[^{}.]*\][^{}.]*\{", s) or re.search(r"\}(\|[^|]*\|)?\[[$<>][^\]]*\][^{}]+\{", s):
            feats.append("connector-with-descriptors")
        if re.search(r"\}\s*$", s):
            feats.append("object-ends-string")
        if ".|" in s:
            feats.append("mixture")
        return "+".join(feats) or "plain"
    if level == "sto":
        return "sto"
    return level


def chain(res, level, s, do_gen):
    import numpy as np

    P = ctor(level)
    st, o1 = run_limited(P, (s,), 20)
    if st != "ok":
        res["extra"]["rejected_inputs"] = res["extra"].get("rejected_inputs", 0) + 1
        return False
    res["states"] += 1
    res["traces"] += 1
    c = str(o1)
    res["transitions"] += 2
    st, o2 = run_limited(P, (c,), 20)
    if st != "ok":
        viol(res, f"C01|reparse-raises|{str(o2).split('(')[0]}|{shape_of(level, c)}", f"{level} {s!r} prints as {c!r}, which is rejected: {o2}", {"level": level, "s": s})
        return True
    res["states"] += 1
    c2 = str(o2)
    res["transitions"] += 2
    if c2 != c:
        viol(res, f"C01|not-a-fixed-point|{level}", f"{level} {s!r}: canonical {c!r} prints as {c2!r}", {"level": level, "s": s})
    try:
        f1, f2 = fp(o1), fp(o2)
    except Exception as e:  # noqa
        viol(res, f"C01|fingerprint-raises|{level}", f"{level} {s!r}: {type(e).__name__} {e}", {"level": level, "s": s})
        return True
    if f1 != f2:
        # locate the first differing component for the key
        what = "structure"
        viol(res, f"C01|different-object|{level}|{shape_of(level, s)}", f"{level} {s!r} and its canonical form {c!r} denote different objects: {diff(f1, f2)}", {"level": level, "s": s})
    # extension-free print
    n = o1.generate_string(False)
    exp, dangling = erase(c)
    res["transitions"] += 1
    if n != exp or "|" in n:
        viol(res, f"C01|noext-not-erasure|{level}", f"{level} {s!r}: generate_string(False) = {n!r}, canonical with |...| erased = {exp!r}", {"level": level, "s": s})
    if level in ("mol", "sto", "token", "desc") and not (level == "mol" and o1.mixture is not None):
        st, o3 = run_limited(P, (n,), 20)
        res["transitions"] += 1
        if st != "ok":
            viol(res, f"C01|noext-rejected|{str(o3).split('(')[0]}|{shape_of(level, n)}", f"{level} {s!r}: extension-free form {n!r} is rejected: {o3}", {"level": level, "s": s})
        else:
            res["states"] += 1
            try:
                g1, g3 = fp(o1, ext=False), fp(o3, ext=False)
                if g1 != g3:
                    viol(res, f"C01|noext-different-object|{level}", f"{level} {s!r}: extension-free form {n!r} denotes different tokens/descriptors: {diff(g1, g3)}", {"level": level, "s": s})
            except Exception as e:  # noqa
                viol(res, f"C01|fingerprint-raises|{level}", f"{level} {s!r}: {type(e).__name__} {e}", {"level": level, "s": s})
    # same molecule under an identically seeded generator
    if do_gen and level in ("mol", "sto", "token"):
        try:
            gable = bool(o1.generable) and bool(o2.generable)
        except Exception:  # noqa
            gable = False
        if bool(getattr(o1, "generable", False)) != bool(getattr(o2, "generable", False)):
            viol(res, f"C01|generable-differs|{level}", f"{level} {s!r}: generable {o1.generable} but canonical form {o2.generable}", {"level": level, "s": s})
        if gable:
            for seed in (1, 2):
                def gen(o, seed=seed):
                    return o.generate(rng=np.random.default_rng(seed)).smiles

                s1 = run_limited(gen, (o1,), 8)
                if s1[0] == "timeout":
                    res["extra"]["gen_skipped_slow"] = res["extra"].get("gen_skipped_slow", 0) + 1
                    break
                s2 = run_limited(gen, (o2,), 16)
                res["transitions"] += 2
                res["extra"]["seeded_generations_compared"] = res["extra"].get("seeded_generations_compared", 0) + 1
                if s1 != s2:
                    viol(res, f"C01|seeded-generation-differs|{level}", f"{level} {s!r} seed {seed}: {s1} vs canonical form {s2}", {"level": level, "s": s})
    return True


def diff(a, b, path="root"):
    if type(a) != type(b):
        return f"{path}: {a!r} vs {b!r}"
    if isinstance(a, tuple):
        if len(a) != len(b):
            return f"{path}: length {len(a)} vs {len(b)}"
        for i, (x, y) in enumerate(zip(a, b)):
            if x != y:
                return diff(x, y, f"{path}[{i}]")
        return "equal"
    return f"{path}: {a!r} vs {b!r}"


def eval_case(kind, data):
    res = new_result()
    level = data["level"]
    n_acc = 0
    for s in data["strings"]:
        levels = [level] if level != "any" else ["mol", "sys", "sto", "token"]
        for lv in levels:
            try:
                ok = chain(res, lv, s, bool(data.get("gen")))
            except Exception as e:  # noqa
                viol(res, f"C01|chain-raises|{lv}|{type(e).__name__}", f"{lv} {s!r}: printing / fingerprinting raises {type(e).__name__}: {str(e)[:80]}", {"level": lv, "s": s})
                ok = True
            n_acc += bool(ok)
            if ok and level == "any":
                break
    res["evals"] = res["traces"]
    res["nontrivial"] = [level, data["strings"][0], n_acc] if n_acc else None
    res["outcomes"] = [f"{level}:{n_acc}"]
    res["sample"] = {"level": level, "strings": data["strings"][:2]}
    return res
