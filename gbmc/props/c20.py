"""C20 - force-field typing is total, element-consistent, numbering- and history-free.

(a) typing of generated molecules of typable chemistry: exactly one parameter set per atom (hydrogens included) whose mass
    is the element's, or the dedicated error carrying the partial assignment and the molecule; partial molecules refused;
(b) ALL atom renumberings (every permutation for <= 5 heavy atoms; all rotations, their reversals and all transpositions of
    neighbours for larger molecules) injected into the MolGen: the assignment must follow the atoms;
(c) explicit-state search over the module-level cache: every sequence of typing calls with {defaults, copies A of the
    bundled files, copies B at other paths, only one of the two files explicit} up to the tier's depth, the assignment of
    probe molecules checked after every call against a baseline.
"""
import itertools
import os
import shutil
import tempfile

from ..common import new_result, viol
from ..scripted import ScriptedGenerator

ANCHORS = ["src/gbigsmiles/forcefield_helper.py", "src/gbigsmiles/mol_gen.py", "src/gbigsmiles/data/opls.par", "src/gbigsmiles/data/ffnonbonded.itp"]
LEVEL_RULE = (
    "(molecule x all renumberings) and (all typing-call sequences over file-name variants up to a depth): state = module cache contents / one renumbered molecule, "
    "transition = one real typing call, trace = one typing call compared with the baseline assignment; non-trivial = distinct molecules and call sequences"
)
ASSUMPTIONS = [
    "the renumbered molecule is injected through MolGen._mol (Chem.RenumberAtoms), typing is observed through the public entry points",
    "element masses from RDKit's periodic table, tolerance 0.02",
    "scratch copies of the bundled parameter files are created under a temporary directory at run time and removed",
]
BOUNDS = {"quick": "14 molecules, all permutations up to 5 heavy atoms, call sequences to depth 3 over 7 actions (incl. failing typing calls)", "thorough": "22 molecules, permutations up to 6 heavy atoms, call sequences to depth 4"}
CASE_TIMEOUT = {"quick": 900, "thorough": 3000}

MOLS = [
    "CCO", "CC(=O)OC", "CN", "COC", "CC=C", "CBr", "CCS", "CC(N)=O", "OCCO", "[NH3+]C",
    "CC{[$][$]CC[$][$]}|gauss(50,0)|CC", "C{[>][<]CC([>])c1ccccc1[<]}|gauss(150,0)|[H]", "OC{[>][<]CO[>][<]}|gauss(60,0)|C",
    "NC{[>][<]CC[>][<]}|gauss(40,0)|F", "CC(=O)NC", "ClC{[>][<]CC[>][<]}|gauss(30,0)|Cl", "c1ccccc1", "CC(C)(C(=O)OC)", "C1CCOC1",
    "CCC(C){[>][<]CC([>])C(=O)OC[<]}|gauss(180,0)|[H]", "O=C=O", "CC(C)O",
]
# rarer chemistry (every molecule the bundled rules can type is held to the same oracle; the others must raise the dedicated error)
MOLS_RARE = [
    "Cn1ccnc1", "C{[>][<]CC([>])n1ccnc1[<]}|gauss(120,0)|[H]", "CC(=O)[O-].[Na+]", "[Li+].[Cl-]", "[K+].[Br-]", "c1ccncc1", "c1ccsc1", "c1ccoc1",
    "CC(=O)O", "CS(C)=O", "CS(=O)(=O)C", "CC#N", "NC(N)=O", "CC(C)=O", "CC=O", "c1ccc(O)cc1", "c1ccc(N)cc1", "Cc1ccccc1", "ClC(Cl)Cl", "CSC", "CSSC",
    "C1CO1", "C=CC=C", "CC(=O)OC(C)=O", "NCC(=O)O", "CN(C)C=O", "c1ccc2ccccc2c1", "OC(=O)c1ccccc1", "CCOC(=O)C", "C[Si](C)(C)C", "CCI", "[NH4+]", "CO",
    "CC(=O)Cl", "C[N+](C)(C)C", "OP(O)(O)=O",
]
# chemically related neighbourhoods (ester / carbonate / carbamate / ether / amide): rules that look several bonds away
MOLS_RELATED = ["COC(=O)OC", "CCOC(=O)OCC", "CNC(=O)OC", "CC(=O)OCC", "COC(=O)C=C", "COC(=O)c1ccccc1", "CC(=O)N(C)C", "CCOCC", "COCCOC", "CC(C)(C)O", "OCC(O)CO",
                "C{[>][<]CC([>])C(=O)OC[<]}|gauss(150,0)|[H]", "C{[>][<]CCOC(=O)O[>][<]}|gauss(150,0)|C",
                # isotope labels (the typing of the label-free twin must not change after them)
                "C{[>][<]C([2H])C[>][<]}|gauss(60,0)|C", "C{[>][<]CC[>][<]}|gauss(60,0)|C", "[13CH3]CO", "[2H]C([2H])([2H])O"]
UNTYPABLE = ["C#N", "FC(F)F"]
PARTIAL = ["N{[>][<]CC[>][<]}|gauss(30,0)|", "CC[$]", "{[][$]CC[$]; [$]C[$]}|gauss(30,0)|",
           # branching units whose other ends are capped while the right terminal's descriptor stays open; two open ends; open end
           # after a second object; open double-bond end
           "CC{[$][$]CC([$])[$]; [$][H][$]}|gauss(60,0)|", "CC{[$][$]CC([$])[$]; [$]C, [$|2|]O[$]}|gauss(80,0)|", "[$]CC[$]",
           "N{[>][<]CC[>][<]}|gauss(30,0)|{[>][<]CO[>]; [<]Cl[<]}|gauss(30,0)|", "C{[>][<]CC(C[>])[>]; [<]F[<]}|gauss(50,0)|", "CC=[$]"]


def enumerate_cases(tier, seed):
    mols = (MOLS if tier == "thorough" else MOLS[:14]) + MOLS_RARE
    for m in mols:
        yield ("renumber", {"mol": m, "tier": tier})
    yield ("errors", {})
    # typing histories over MOLECULES: for every ordered pair (A, B) the calls type(A), type(B), type(B again, new object)
    # on one assigner; every result for B must equal B typed alone on a fresh assigner
    allm = MOLS + MOLS_RARE + MOLS_RELATED
    if tier == "quick":
        allm = MOLS[:14] + MOLS_RARE[:: 2] + MOLS_RELATED
    for i in range(len(allm)):
        yield ("pair-history", {"first": allm[i], "others": allm})
    depth = 4 if tier == "thorough" else 3
    acts = ["D", "A", "B", "As", "An", "Xd", "Xa", "Rn", "Rb"]
    for first in acts:
        yield ("history", {"first": first, "depth": depth})


def generate(text):
    import gbigsmiles

    return gbigsmiles.Molecule(text).generate(rng=ScriptedGenerator([]))


def assignment(ff, mol):
    """per heavy atom: (its parameter tuple, sorted parameter tuples of its hydrogens)"""
    def tup(p):
        return (round(p.mass, 6), round(p.charge, 6), round(p.sigma, 9), round(p.epsilon, 9), p.bond_type_name)

    out = {}
    for a in mol.GetAtoms():
        if a.GetAtomicNum() == 1 and a.GetDegree() == 1 and a.GetNeighbors()[0].GetAtomicNum() != 1:
            continue
        hs = sorted(tup(ff[n.GetIdx()]) for n in a.GetNeighbors() if n.GetAtomicNum() == 1 and n.GetIdx() in ff)
        out[a.GetIdx()] = (tup(ff[a.GetIdx()]), tuple(hs))
    return out


def check_total(res, text, ff, mol, ctx):
    from rdkit import Chem

    pt = Chem.GetPeriodicTable()
    if set(ff.keys()) != set(range(mol.GetNumAtoms())):
        viol(res, f"C20|not-total|{ctx}", f"{text}: {len(ff)} parameter sets for {mol.GetNumAtoms()} atoms", {"mol": text})
        return False
    for i, p in ff.items():
        a = mol.GetAtomWithIdx(i)
        if abs(p.mass - pt.GetAtomicWeight(a.GetAtomicNum())) > 0.02:
            viol(res, f"C20|wrong-element|{ctx}", f"{text}: atom {i} ({a.GetSymbol()}) typed {p.bond_type_name} with mass {p.mass}", {"mol": text})
            return False
    return True


def _reset_cache():
    import gbigsmiles.forcefield_helper as fh

    fh._global_assignment_class = None
    fh._global_nonbonded_itp_file = None
    fh._global_smarts_rule_file = None


def _type_once(mg):
    """('ok', assignment) | ('ff-error', n atoms in the partial assignment) | ('exc', type name)"""
    import gbigsmiles.forcefield_helper as fh

    try:
        ff, mol = mg.get_forcefield_types()
        if set(ff.keys()) != set(range(mol.GetNumAtoms())):
            return ("not-total", len(ff))
        return ("ok", assignment(ff, mol))
    except fh.FfAssignmentError:
        return ("ff-error", None)
    except Exception as e:  # noqa
        return ("exc", type(e).__name__)


def eval_pair_history(res, data):
    a_text = data["first"]
    try:
        mga = generate(a_text)
    except Exception:  # noqa
        res["nontrivial"] = None
        return res
    n = 0
    bad = 0
    for b_text in data["others"]:
        try:
            mgb = generate(b_text)
        except Exception:  # noqa
            continue
        _reset_cache()
        base = _type_once(mgb)
        _reset_cache()
        _type_once(mga)
        seq = ["A"]
        for step in ("B", "B again"):
            seq.append(step)
            got = _type_once(generate(b_text) if step == "B again" else mgb)
            n += 1
            res["transitions"] += 1
            if got != base and bad < 3:
                bad += 1
                viol(res, "C20|depends-on-earlier-molecules", f"typing {b_text} ({step}) after typing {a_text} on the same assigner gives {got[0]}{'' if got[0] != 'ok' else ' with a different assignment'}; typed alone on a fresh assigner: {base[0]}", {"first": a_text, "second": b_text})
        res["states"] += 1
    _reset_cache()
    res["traces"] = n
    res["evals"] = n
    res["nontrivial"] = ["pair-history", a_text, n]
    res["outcomes"] = [f"pair-history:{a_text}"]
    res["sample"] = {"first_molecule": a_text, "second_molecules": len(data["others"]), "typing_calls_compared": n}
    res["extra"] = {"molecule_pair_histories": len(data["others"])}
    return res


def perms_for(n, tier):
    limit = 6 if tier == "thorough" else 5
    if n <= limit:
        return [list(p) for p in itertools.permutations(range(n))]
    out = []
    base = list(range(n))
    for r in range(n):
        rot = base[r:] + base[:r]
        out.append(rot)
        out.append(list(reversed(rot)))
    for i in range(n - 1):
        p = list(base)
        p[i], p[i + 1] = p[i + 1], p[i]
        out.append(p)
    for i in range(0, n, max(1, n // 6)):
        p = list(base)
        p[0], p[i] = p[i], p[0]
        out.append(p)
    seen = []
    for p in out:
        if p not in seen:
            seen.append(p)
    return seen


def eval_case(kind, data):
    import gbigsmiles
    from gbigsmiles import forcefield_helper as fh
    from rdkit import Chem

    res = new_result()
    if kind == "renumber":
        text = data["mol"]
        mg = generate(text)
        res["states"] += 1
        try:
            ff, mol = mg.forcefield_types
        except fh.FfAssignmentError as e:
            # chemistry the bundled rules do not cover: the dedicated error with its payload is the required answer
            part = getattr(e, "incomplete_ff_dict", None)
            if not isinstance(part, dict) or getattr(e, "mol", None) is None:
                viol(res, "C20|error-without-payload", f"{text}: assignment error carries partial={type(part).__name__} mol={getattr(e, 'mol', None)}", {"mol": text})
            res["traces"] += 1
            res["evals"] = 1
            res["nontrivial"] = [text, "untypable"]
            res["sample"] = {"molecule": text, "untypable": True}
            return res
        except Exception as e:  # noqa
            viol(res, f"C20|typing-raises|{type(e).__name__}", f"{text}: typing raises {type(e).__name__}: {str(e)[:80]}", {"mol": text})
            return res
        res["traces"] += 1
        res["transitions"] += 1
        if not check_total(res, text, ff, mol, "default"):
            return res
        base = assignment(ff, mol)
        nheavy = mg._mol.GetNumAtoms()
        orig = Chem.Mol(mg._mol)
        n = 0
        for perm in perms_for(nheavy, data["tier"]):
            n += 1
            res["states"] += 1
            mg._mol = Chem.RenumberAtoms(orig, perm)
            try:
                ff2, mol2 = mg.forcefield_types
            except Exception as e:  # noqa
                viol(res, f"C20|renumbered-typing-raises|{type(e).__name__}", f"{text}: typing the same molecule with atoms renumbered {perm} raises {type(e).__name__}", {"mol": text, "perm": perm})
                break
            res["traces"] += 1
            res["transitions"] += 1
            if not check_total(res, text, ff2, mol2, "renumbered"):
                break
            a2 = assignment(ff2, mol2)
            # new atom i is old atom perm[i]
            diff = [i for i in range(nheavy) if a2.get(i) != base.get(perm[i])]
            if diff:
                i = diff[0]
                viol(res, "C20|numbering-dependent", f"{text}: after renumbering {perm} atom {perm[i]} ({orig.GetAtomWithIdx(perm[i]).GetSymbol()}) is typed {a2.get(i)[0][4]} instead of {base.get(perm[i])[0][4]}", {"mol": text, "perm": perm})
                break
        mg._mol = orig
        res["evals"] = res["traces"]
        res["nontrivial"] = [text, n]
        res["outcomes"] = sorted({v[0][4] for v in base.values()})
        res["sample"] = {"molecule": text, "smiles": mg.smiles, "renumberings": n, "atom_types": sorted({v[0][4] for v in base.values()})}
        return res

    if kind == "errors":
        for text in UNTYPABLE:
            mg = generate(text)
            res["states"] += 1
            res["traces"] += 1
            try:
                ff, mol = mg.forcefield_types
                check_total(res, text, ff, mol, "untypable-list")
            except fh.FfAssignmentError as e:
                part = getattr(e, "incomplete_ff_dict", None)
                emol = getattr(e, "mol", None)
                if not isinstance(part, dict) or emol is None:
                    viol(res, "C20|error-without-payload", f"{text}: assignment error carries partial={type(part).__name__} mol={emol}", {"mol": text})
                elif len(part) >= emol.GetNumAtoms():
                    viol(res, "C20|error-but-complete", f"{text}: assignment error although all {len(part)} atoms are assigned", {"mol": text})
            except Exception as e:  # noqa
                viol(res, f"C20|wrong-error-type|{type(e).__name__}", f"{text}: untypable molecule raises {type(e).__name__} instead of the assignment error", {"mol": text})
        for text in PARTIAL:
            try:
                mg = generate(text)
            except Exception:  # noqa
                continue
            if len(mg.bond_descriptors) == 0:
                continue  # (judged by the open descriptors themselves, not by the library's own flag)
            res["states"] += 1
            res["traces"] += 1
            for name, f in (("forcefield_types", lambda: mg.forcefield_types), ("get_forcefield_types", lambda: mg.get_forcefield_types())):
                try:
                    f()
                    viol(res, f"C20|partial-molecule-typed|{name}", f"{text}: partially generated molecule is typed by {name}", {"mol": text})
                except fh.FfAssignmentError:
                    viol(res, f"C20|partial-molecule-typed|{name}", f"{text}: partially generated molecule reaches the assignment ({name})", {"mol": text})
                except Exception:  # noqa
                    pass
        res["evals"] = res["traces"]
        res["nontrivial"] = ["errors", res["traces"]]
        res["outcomes"] = ["errors"]
        res["sample"] = {"untypable": UNTYPABLE, "partial": PARTIAL}
        return res

    if kind == "pair-history":
        return eval_pair_history(res, data)
    # history: explicit-state search over the module cache
    tmp = tempfile.mkdtemp(prefix="gbmc_c20_")
    try:
        from importlib.resources import files

        srcs = {"s": str(files("gbigsmiles").joinpath("data", "opls.par")), "n": str(files("gbigsmiles").joinpath("data", "ffnonbonded.itp"))}
        paths = {}
        for tag in ("A", "B"):
            d = os.path.join(tmp, tag, "deep" if tag == "B" else "")
            os.makedirs(d, exist_ok=True)
            paths[tag] = (os.path.join(d, f"rules_{tag}.par"), os.path.join(d, f"nb_{tag}.itp"))
            shutil.copy(srcs["s"], paths[tag][0])
            shutil.copy(srcs["n"], paths[tag][1])
        # Xd / Xa: typing a molecule the rules cannot type (must raise the dedicated error and leave no trace)
        # refit files: same rules / types, but every charge scaled - typing with them legitimately differs, later default calls must not
        refit = (os.path.join(tmp, "refit_rules.par"), os.path.join(tmp, "refit_nb.itp"))
        shutil.copy(srcs["s"], refit[0])
        with open(srcs["n"]) as fin, open(refit[1], "w") as fout:
            for line in fin:
                parts = line.split()
                if len(parts) >= 8 and parts[0].startswith("opls_"):
                    try:
                        parts[4] = f"{float(parts[4]) * 1.25 + 0.01:.4f}"
                        line = " " + "   ".join(parts) + "\n"
                    except ValueError:
                        pass
                fout.write(line)
        ACT = {"D": (None, None), "A": paths["A"], "B": paths["B"], "As": (paths["A"][0], None), "An": (None, paths["A"][1]), "Xd": (None, None), "Xa": paths["A"], "Rn": (None, refit[1]), "Rb": refit}
        untypable = [generate(t) for t in UNTYPABLE]
        probes = ["CC(=O)OC", "C{[>][<]CC([>])c1ccccc1[<]}|gauss(150,0)|[H]", "[NH3+]C"]
        mgs = [generate(p) for p in probes]
        # baseline in a reset cache
        fh._global_assignment_class = None
        fh._global_nonbonded_itp_file = None
        fh._global_smarts_rule_file = None
        base = []
        for mg in mgs:
            ff, mol = mg.forcefield_types
            base.append(assignment(ff, mol))
        states = set()
        acts = list(ACT)
        nseq = 0
        for seq in itertools.product(acts, repeat=data["depth"] - 1):
            seq = (data["first"],) + seq
            nseq += 1
            fh._global_assignment_class = None
            fh._global_nonbonded_itp_file = None
            fh._global_smarts_rule_file = None
            for step, a in enumerate(seq):
                sfile, nfile = ACT[a]
                mg = mgs[(step + nseq) % len(mgs)]
                exp = base[(step + nseq) % len(mgs)]
                res["transitions"] += 1
                res["traces"] += 1
                if a in ("Xd", "Xa"):
                    bad = untypable[(step + nseq) % len(untypable)]
                    try:
                        bad.get_forcefield_types(sfile, nfile)
                        viol(res, f"C20|untypable-typed|call={a}", f"untypable molecule typed after {list(seq[:step])}", {"seq": list(seq), "step": step})
                    except fh.FfAssignmentError:
                        pass
                    except Exception as e:  # noqa
                        viol(res, f"C20|history-wrong-error|{type(e).__name__}|call={a}", f"untypable molecule after {list(seq[:step])} raises {type(e).__name__} instead of the assignment error", {"seq": list(seq), "step": step})
                        break
                    states.add((str(fh._global_smarts_rule_file).replace(tmp, ""), str(fh._global_nonbonded_itp_file).replace(tmp, "")))
                    continue
                try:
                    if a == "D" and step % 2 == 0:
                        ff, mol = mg.forcefield_types
                    else:
                        ff, mol = mg.get_forcefield_types(sfile, nfile)
                except Exception as e:  # noqa
                    viol(res, f"C20|history-typing-raises|{type(e).__name__}|after={'none' if step == 0 else 'calls'}|call={a}", f"typing with {a} after {list(seq[:step])} raises {type(e).__name__}: {str(e)[:60]}", {"seq": list(seq), "step": step})
                    break
                states.add((str(fh._global_smarts_rule_file).replace(tmp, ""), str(fh._global_nonbonded_itp_file).replace(tmp, "")))
                if a in ("Rn", "Rb"):
                    # different parameter values on purpose: only totality and element masses are required here
                    check_total(res, probes[(step + nseq) % len(mgs)], ff, mol, "refit-files")
                    continue
                if assignment(ff, mol) != exp:
                    viol(res, f"C20|history-dependent|call={a}", f"typing with {a} after {list(seq[:step])} gives a different assignment than the defaults in a fresh process", {"seq": list(seq), "step": step})
                    break
        res["states"] = len(states)
        res["evals"] = res["traces"]
        res["nontrivial"] = ["history", data["first"], nseq]
        res["outcomes"] = sorted(f"{s[0]}|{s[1]}" for s in states)
        res["sample"] = {"first_action": data["first"], "sequences": nseq, "distinct_cache_states": len(states)}
        res["extra"] = {"call_sequences": nseq}
    finally:
        shutil.rmtree(tmp, ignore_errors=True)
        fh._global_assignment_class = None
        fh._global_nonbonded_itp_file = None
        fh._global_smarts_rule_file = None
    return res
