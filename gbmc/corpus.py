"""Full-size documented strings (README.md, SI.md, tests) as generation instances: an independent splitter turns the raw
text into a structured description; they are explored with a DEVIATION BOUND (default answer everywhere, then every single
/ double deviation), and judged by the per-execution oracles only."""
import re

from . import refsem as R
from .genexp import Instance


def _split_top(text, sep):
    """split at sep outside square brackets"""
    out, depth, cur = [], 0, ""
    for ch in text:
        if ch == "[":
            depth += 1
        elif ch == "]":
            depth -= 1
        if ch == sep and depth == 0:
            out.append(cur)
            cur = ""
        else:
            cur += ch
    out.append(cur)
    return out


def parse_molecule_text(text):
    """independent reading of a molecule string -> description (raises ValueError when the shape is not understood)"""
    text = text.strip()
    # mixture at the end
    mix = None
    depth = 0
    for i, ch in enumerate(text[:-1]):
        if ch == "[":
            depth += 1
        elif ch == "]":
            depth -= 1
        elif ch == "." and text[i + 1] == "|" and depth == 0:
            j = text.find("|", i + 2)
            if j < 0 or text[j + 1 :].strip():
                raise ValueError("text after mixture")
            mix = text[i + 2 : j].strip()
            text = text[:i]
            break
    els = []
    rest = text
    while "{" in rest:
        a = rest.index("{")
        pre = rest[:a].strip()
        if pre:
            els.append(R.tok(pre))
        b = rest.index("}", a)
        inner = rest[a + 1 : b]
        m1 = re.match(r"\s*([-=#:]*\[[^\]]*\])", inner)
        m2 = re.search(r"([-=#:]*\[[^\]]*\])\s*$", inner)
        if not m1 or not m2 or m2.start(1) < m1.end(1):
            raise ValueError("terminals")
        left, right = m1.group(1).strip(), m2.group(1).strip()
        mid = inner[m1.end(1) : m2.start(1)]
        parts = _split_top(mid, ";")
        if len(parts) > 2:
            raise ValueError("several ';'")
        rep = [t.strip() for t in _split_top(parts[0], ",") if t.strip()]
        end = [t.strip() for t in _split_top(parts[1], ",") if t.strip()] if len(parts) == 2 else []
        rest = rest[b + 1 :]
        dist = None
        if rest.lstrip().startswith("|"):
            r2 = rest.lstrip()
            j = r2.index("|", 1)
            dist = r2[1:j].strip()
            rest = r2[j + 1 :]
        els.append(R.sto(left, rep, end, right, dist))
    if rest.strip():
        els.append(R.tok(rest.strip()))
    return {"elements": els, "mixture": mix}


def corpus_instances(limit=None):
    from .props.c01 import corpus

    out = []
    for s in corpus():
        if ".|" in s and s.count(".|") > 1:
            continue
        try:
            spec = parse_molecule_text(s)
            if not any(e["k"] == "sto" for e in spec["elements"]):
                continue
            if any(e["k"] == "sto" and not e.get("dist") for e in spec["elements"]):
                continue
            spec["mixture"] = None
            inst = Instance("corpus|" + s[:60], spec, menu=(0.5, 0.1, 0.9), family="documented-string")
            out.append(inst)
        except Exception:  # noqa
            continue
    seen = set()
    uniq = []
    for i in out:
        if i.text not in seen:
            seen.add(i.text)
            uniq.append(i)
    return uniq[:limit] if limit else uniq
