import os
import sys

from . import common


def main(argv):
    if len(argv) < 2:
        print("usage: check <ID> quick|thorough | check <ID> --replay <path>")
        return 2
    pid = argv[0].upper()
    modname = f"gbmc.props.{pid.lower()}"
    if argv[1] == "--replay":
        try:
            return common.run_replay(argv[2])
        except BaseException as e:  # noqa
            import traceback

            traceback.print_exc()
            return 2
    tier = argv[1]
    if tier not in ("quick", "thorough"):
        print("tier must be quick or thorough")
        return 2
    seed = int(os.environ.get("VERIF_SEED", "0") or 0)
    try:
        return common.run_check(pid, modname, tier, seed)
    except common.HarnessError as e:
        print(f"HARNESS-ERROR {e}", file=sys.stderr)
        return 2
    except BaseException as e:  # an exception of the harness must never look like a violation (exit 1)
        import traceback

        traceback.print_exc()
        print(f"HARNESS-ERROR {type(e).__name__}: {e}", file=sys.stderr)
        return 2


if __name__ == "__main__":
    sys.exit(main(sys.argv[1:]))
