"""Runner infrastructure shared by all property checks.

A property module provides

    LEVEL_RULE      str   how cases are enumerated / what is non-trivial
    ASSUMPTIONS     list[str]
    enumerate_cases(tier, seed) -> iterable of (kind, data)   data is JSON-serialisable
    eval_case(kind, data) -> CaseResult dict (see new_result)

The runner maps eval_case over all cases in sandboxed worker processes (address-space
limit + per-case alarm), aggregates states / transitions / traces, matches violations
against /verif/known_findings.json, writes replay files and the evidence file.
A replay is simply eval_case(kind, data) on the stored case - no explorer, no pool.
"""
import hashlib
import json
import multiprocessing as mp
import os
import resource
import signal
import sys
import time
import traceback

VERIF = os.path.dirname(os.path.dirname(os.path.abspath(__file__)))
REPO = os.environ.get("GBMC_REPO", "/repo")
_OUT = os.environ.get("GBMC_OUT", VERIF)  # mutation self-tests redirect evidence / replays away from /verif
EVIDENCE_DIR = os.path.join(_OUT, "evidence")
REPLAY_DIR = os.path.join(_OUT, "replays")
FINDINGS_FILE = os.path.join(VERIF, "known_findings.json")
MEM_LIMIT = 4 * 1024**3
NPROC = int(os.environ.get("GBMC_NPROC", str(min(16, os.cpu_count() or 4))))


class CaseTimeout(Exception):
    pass


class HarnessError(Exception):
    """The harness itself is inconsistent (exit 2, never a VIOLATION)."""


class RunawayExecution(Exception):
    """One execution asked the scripted generator for more answers than any terminating run of a bounded instance
    needs (an unbounded redraw / retry loop): observed as 'does not terminate'."""


def bind_repo():
    """Make sure the library under test is the working tree of REPO."""
    src = os.path.join(REPO, "src")
    if src not in sys.path:
        sys.path.insert(0, src)
    import gbigsmiles  # noqa

    f = os.path.realpath(gbigsmiles.__file__)
    if not f.startswith(os.path.realpath(src)):
        raise HarnessError(f"gbigsmiles imported from {f}, expected under {src}")
    try:
        from rdkit import RDLogger

        RDLogger.DisableLog("rdApp.*")
    except Exception:
        pass
    return gbigsmiles


def source_digest(files):
    out = {}
    for f in files:
        p = os.path.join(REPO, f)
        try:
            with open(p, "rb") as fh:
                out[f] = hashlib.sha256(fh.read()).hexdigest()[:16]
        except OSError:
            out[f] = "missing"
    return out


_CURRENT = []  # result dicts created during the case being evaluated (first one = the case's own)


def new_result():
    r = _new_result()
    _CURRENT.append(r)
    return r


def _new_result():
    return {
        "viol": [],  # list of {key, what, detail}
        "states": 0,
        "transitions": 0,
        "traces": 0,  # executions / traces of the implementation that were checked
        "evals": 0,
        "nontrivial": None,  # hashable tag that makes the case distinct & non trivial (or None)
        "outcomes": [],  # distinct observed outcome tags (short strings)
        "sample": None,
        "capped": False,
        "extra": {},
    }


def viol(res, key, what, detail=None):
    res["viol"].append({"key": key, "what": what, "detail": detail})


# ---------------------------------------------------------------- sandboxed workers


def _alarm(signum, frame):
    raise CaseTimeout()


def _worker_init():
    try:
        resource.setrlimit(resource.RLIMIT_AS, (MEM_LIMIT, MEM_LIMIT))
    except Exception:
        pass
    signal.signal(signal.SIGALRM, _alarm)
    import warnings

    warnings.simplefilter("ignore")
    bind_repo()


def run_limited(fn, args, timeout):
    """Run fn(*args) under an alarm; returns ("ok", value) | ("timeout", None) |
    ("memory", None) | ("exc", repr).  Nests inside the per-case alarm: the enclosing deadline is restored
    afterwards (and fires at once if it has passed meanwhile)."""
    signal.signal(signal.SIGALRM, _alarm)
    outer = signal.getitimer(signal.ITIMER_REAL)[0]
    t0 = time.time()
    outer_first = 0 < outer <= timeout
    signal.setitimer(signal.ITIMER_REAL, outer if outer_first else timeout)
    try:
        return ("ok", fn(*args))
    except CaseTimeout:
        if outer_first:
            raise  # the enclosing case deadline, not this call's limit
        return ("timeout", None)
    except MemoryError:
        return ("memory", None)
    except RecursionError as e:
        return ("exc", f"RecursionError({e})")
    except RunawayExecution:
        return ("timeout", None)
    except Exception as e:  # noqa
        return ("exc", f"{type(e).__name__}({e})")
    finally:
        if outer > 0:
            signal.setitimer(signal.ITIMER_REAL, max(0.01, outer - (time.time() - t0)))
        else:
            signal.setitimer(signal.ITIMER_REAL, 0)


def _eval_wrapper(arg):
    modname, kind, data, timeout = arg
    import importlib

    mod = importlib.import_module(modname)
    t0 = time.time()
    del _CURRENT[:]
    signal.setitimer(signal.ITIMER_REAL, timeout)
    try:
        import contextlib
        import io

        with contextlib.redirect_stdout(io.StringIO()):  # the library prints debug output on some error paths
            res = mod.eval_case(kind, data)
        status = "ok"
    except CaseTimeout:
        # the budget of the whole case is used up: violations already established in it are kept (and reported), the
        # case counts as capped; without any it is a harness budget problem (exit 2)
        partial = _CURRENT[0] if _CURRENT and _CURRENT[0].get("viol") else None
        res = partial if partial is not None else _new_result()
        status = "ok" if partial is not None else "case-timeout"
        if partial is not None:
            res["capped"] = True
            res["capped_note"] = "case time budget used up after violations had been established; the rest of the case was not evaluated"
    except MemoryError:
        res = _new_result()
        status = "case-memory"
    except HarnessError:
        res = _new_result()
        status = "harness:" + traceback.format_exc()
    except Exception:
        res = _new_result()
        status = "harness:" + traceback.format_exc()
    finally:
        signal.setitimer(signal.ITIMER_REAL, 0)
    res["status"] = status
    res["wall"] = time.time() - t0
    res["kind"] = kind
    res["data"] = data
    return res


def pool_map(modname, cases, timeout):
    args = [(modname, k, d, timeout) for (k, d) in cases]
    if NPROC <= 1 or len(args) <= 1:
        _worker_init()
        for a in args:
            yield _eval_wrapper(a)
        return
    ctx = mp.get_context("fork")
    with ctx.Pool(NPROC, initializer=_worker_init, maxtasksperchild=200) as pool:
        for r in pool.imap_unordered(_eval_wrapper, args, chunksize=1):
            yield r


# ---------------------------------------------------------------- findings


def load_findings(pid):
    try:
        with open(FINDINGS_FILE) as fh:
            allf = json.load(fh)
    except FileNotFoundError:
        return []
    return [f for f in allf.get("findings", []) if f.get("property") == pid]


def match_finding(findings, key):
    for f in findings:
        if f.get("status") != "known":
            continue
        if f.get("key") == key:
            return f
    return None


def _digest(obj):
    return hashlib.sha256(json.dumps(obj, sort_keys=True, default=str).encode()).hexdigest()[:16]


def write_replay(pid, modname, kind, data, v):
    d = os.path.join(REPLAY_DIR, pid)
    os.makedirs(d, exist_ok=True)
    payload = {
        "property": pid,
        "module": modname,
        "kind": kind,
        "data": data,
        "key": v["key"],
        "what": v["what"],
        "detail": v.get("detail"),
    }
    p = os.path.join(d, _digest([kind, data, v["key"]]) + ".json")
    with open(p, "w") as fh:
        json.dump(payload, fh, indent=1, default=str)
    return p


# ---------------------------------------------------------------- main driver


def run_check(pid, modname, tier, seed):
    import importlib

    t0 = time.time()
    bind_repo()
    mod = importlib.import_module(modname)
    cases = list(mod.enumerate_cases(tier, seed))
    if os.environ.get("GBMC_FAST") and len(cases) > 45:
        # mutation analysis of the checks (tools/mutation_sweep.py): a third of the cases, never used for evidence
        cases = cases[:15] + cases[15::3]
    timeout = getattr(mod, "CASE_TIMEOUT", {"quick": 120, "thorough": 900})[tier]
    findings = load_findings(pid)

    agg = dict(states=0, transitions=0, traces=0, evals=0)
    nontrivial = set()
    outcomes = set()
    samples = []
    unlisted = {}
    known_seen = {}
    harness_errors = []
    capped = 0
    capped_names = []
    timeouts = 0
    extra = {}
    n_cases = 0
    for res in pool_map(modname, cases, timeout):
        n_cases += 1
        st = res["status"]
        if st.startswith("harness:"):
            harness_errors.append((res["kind"], res["data"], st))
            continue
        if st in ("case-timeout", "case-memory"):
            # a whole case running out of budget is a harness budget problem unless the
            # module says non-termination is an observation (it then handles it itself).
            timeouts += 1
            harness_errors.append((res["kind"], res["data"], st))
            continue
        for k in agg:
            agg[k] += int(res.get(k, 0))
        if res.get("nontrivial") is not None:
            nontrivial.add(json.dumps(res["nontrivial"], sort_keys=True, default=str))
        for o in res.get("outcomes", []):
            if len(outcomes) < 200000:
                outcomes.add(o)
        if res.get("sample") is not None and len(samples) < 12:
            samples.append(res["sample"])
        if res.get("capped"):
            capped += 1
            capped_names.append((str(res.get("nontrivial")) + ": " + str(res.get("capped_note", "cap reached")))[:260])
        for k, v in res.get("extra", {}).items():
            if isinstance(v, (int, float)):
                extra[k] = extra.get(k, 0) + v
        for v in res["viol"]:
            f = match_finding(findings, v["key"])
            if f is not None:
                known_seen.setdefault(f["key"], (f, v, res["kind"], res["data"]))
            else:
                unlisted.setdefault(v["key"], (v, res["kind"], res["data"]))

    wall = time.time() - t0
    for key, (f, v, kind, data) in sorted(known_seen.items()):
        print(f"KNOWN-FINDING: property={pid} {f.get('what', v['what'])} [key={key}]")
    exit_code = 0
    replay_paths = []
    for key, (v, kind, data) in sorted(unlisted.items()):
        p = write_replay(pid, modname, kind, data, v)
        replay_paths.append(p)
        if len(replay_paths) <= 25:
            print(f"VIOLATION property={pid} replay={p}")
            print(f"   key={key}\n   what={v['what']}")
        exit_code = 1
    if len(replay_paths) > 25:
        print(f"   ... {len(replay_paths) - 25} further distinct violations (replay files written)")

    if harness_errors:
        for kind, data, st in harness_errors[:5]:
            print(f"HARNESS-ERROR property={pid} kind={kind} data={json.dumps(data, default=str)[:300]}\n{st}", file=sys.stderr)
        if exit_code == 0:
            exit_code = 2

    coverage = {
        "states": agg["states"],
        "transitions": agg["transitions"],
        "traces_validated_against_impl": agg["traces"],
        "samples": samples if samples else [{"note": "no sample recorded"}],
        "evaluations": max(agg["evals"], n_cases),
        "distinct_nontrivial": len(nontrivial),
        "rule": getattr(mod, "LEVEL_RULE", ""),
        "exhaustive": bool(getattr(mod, "EXHAUSTIVE", True)) and capped == 0,
        "cases": n_cases,
        "cases_capped": capped,
        "capped_cases": capped_names[:20],
        "distinct_observed_outcomes": len(outcomes),
        "known_findings_reproduced": sorted(known_seen.keys()),
        "bounds": getattr(mod, "BOUNDS", {}).get(tier, ""),
        "source_digest": source_digest(getattr(mod, "ANCHORS", [])),
    }
    coverage.update(extra)
    ev = {
        "property_id": pid,
        "tier": tier,
        "seed": int(seed),
        "level": "model_checking",
        "coverage": coverage,
        "assumptions": list(getattr(mod, "ASSUMPTIONS", [])),
        "wall_s": round(wall, 2),
        "violations": len(unlisted),
    }
    os.makedirs(EVIDENCE_DIR, exist_ok=True)
    with open(os.path.join(EVIDENCE_DIR, f"{pid}.json"), "w") as fh:
        json.dump(ev, fh, indent=1, default=str)
    print(
        f"[{pid} {tier} seed={seed}] cases={n_cases} states={agg['states']} transitions={agg['transitions']} "
        f"impl_traces={agg['traces']} nontrivial={len(nontrivial)} outcomes={len(outcomes)} "
        f"known={len(known_seen)} violations={len(unlisted)} capped={capped} wall={wall:.1f}s exit={exit_code}"
    )
    return exit_code


def run_replay(path):
    import importlib

    bind_repo()
    _worker_init()
    with open(path) as fh:
        payload = json.load(fh)
    mod = importlib.import_module(payload["module"])
    det = payload.get("detail") or {}
    if isinstance(det, dict) and det.get("script") and payload["kind"] == "instance" and "inst" in payload["data"]:
        # a recorded choice sequence: replay exactly that one execution, without the explorer
        from .genexp import Instance, replay_script

        inst = Instance.from_json(payload["data"]["inst"])
        summary, per = replay_script(inst, det["script"])
        print(json.dumps({"single_execution": summary, "oracle_findings": per}, indent=1, default=str))
        return 1 if per else 0
    res = mod.eval_case(payload["kind"], payload["data"])
    hit = [v for v in res["viol"] if v["key"] == payload["key"]]
    print(json.dumps({"expected_key": payload["key"], "reproduced": bool(hit), "violations": res["viol"]}, indent=1, default=str))
    return 1 if res["viol"] else 0
