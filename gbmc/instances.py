"""Bounded instance families (archetypes) for the generation properties.  Every family is a function from a
small parameter tuple to a molecule description; families are enumerated over their whole (tier-dependent)
parameter domain.  VERIF_SEED only rotates which extra token-library entries are combined in; it never drives a
statistical decision."""
import itertools

from .genexp import Instance
from .refsem import sto, tok, token_ref

# directional repeat units  (text, short name)
UNITS_DIR = [
    "[<]CC[>]",
    "[<]CO[>]",
    "[<]CC([>])c1ccccc1",
    "[<]C[NH2+][>]",
    "[<][Si](C)(C)[>]",
    "[<]C(Cl)C[>]",
    "[<]C1CCC([>])CC1",
    "[<]CC(C)([>])C(=O)OC",
    "[<]C(=O)c1ccc(cc1)C(=O)[>]",
    "[<]N[>]",
]
UNITS_SYM = ["[$]CC[$]", "[$]CO[$]", "[$]CC([$])c1ccccc1", "[$]C(Br)C[$]", "[$]C([$])C=O"]
PREFIXES = ["N", "[H]", "CC", "OC", "c1ccccc1C", "[NH3+]C", "ClC"]
SUFFIXES = ["F", "[H]", "CO", "C(C)CC(c1ccccc1)c1ccccc1", "Br", "C#N"]


def mass(t):
    return token_ref(t).mass


def g0(x):
    return f"gauss({x!r}, 0)"


def mol(*els, mixture=None):
    return {"elements": list(els), "mixture": mixture}


def rot(lst, seed, k):
    """always the first entry + k entries rotated by seed"""
    if len(lst) <= k + 1:
        return list(lst)
    rest = lst[1:]
    s = seed % len(rest)
    return [lst[0]] + (rest[s:] + rest[:s])[:k]


def w(text, idx, weight):
    """put a weight text on the idx-th descriptor of a token text"""
    from .refsem import DESC_RE

    ms = list(DESC_RE.finditer(text))
    m = ms[idx]
    d = m.group(0)
    core = d[: d.index("|")] if "|" in d else d[:-1]
    return text[: m.start()] + core + "|" + weight + "|]" + text[m.end() :]


def families(tier, seed):
    """yield Instance objects"""
    thorough = tier == "thorough"
    nu = 6 if thorough else 2
    units = rot(UNITS_DIR, seed, nu)
    prefixes = rot(PREFIXES, seed, 3 if thorough else 1)
    suffixes = rot(SUFFIXES, seed, 3 if thorough else 1)

    # 1. homopolymer, directional, prefix + suffix, targets around 1..3 units (non boundary)
    for u, p, s in itertools.product(units, prefixes, suffixes):
        m = mass(u)
        for k in ([0.5, 1.5, 2.5] if not thorough else [-1, 0.5, 1.5, 2.5, 3.5]):
            yield Instance(f"homo-dir|{u}|{p}|{s}|{k}", mol(tok(p), sto("[>]", [u], [], "[<]", g0(round(k * m, 3))), tok(s)), family="homo-dir")
    # same, reversed orientation of the terminals (object entered through its [>] side)
    for u in units[:2]:
        m = mass(u)
        yield Instance(f"homo-rev|{u}", mol(tok("N"), sto("[<]", [u], [], "[>]", g0(round(1.5 * m, 3))), tok("F")), family="homo-rev")
    # 2. homopolymer with $ descriptors
    for u in rot(UNITS_SYM, seed, 3 if thorough else 1):
        m = mass(u)
        ends = ["[$][H]"] if u.count("[$]") > 2 else []
        for k in [0.5, 1.5] + ([2.5] if thorough else []):
            yield Instance(f"homo-sym|{u}|{k}", mol(tok("N"), sto("[$]", [u], ends, "[$]", g0(round(k * m, 3))), tok("F")), family="homo-sym")
    # 3. random copolymer, two units, all weight forms
    wforms = [(None, None), ("3", None), ("0", None), ("0", "0"), ("0.5", "0.5"), ("2", "6")]
    # tiny / nearly equal weights: "equal" means equal, not "close"
    wforms += [("0", "1e-9"), ("1e-9", "3e-9"), ("1", "1.000001")]
    if thorough:
        wforms += [(None, "0"), ("1e-3", "1"), ("3.", ".5"), ("1e-12", "0"), ("1e5", "100001")]
    pairs = [(units[0], units[1])] + ([(units[1], units[2]), (units[0], units[3])] if thorough else [])
    for (a, b), (wa, wb) in itertools.product(pairs, wforms):
        ua = w(a, 0, wa) if wa is not None else a
        ub = w(b, 0, wb) if wb is not None else b
        t = 1.6 * max(mass(a), mass(b))
        yield Instance(f"rand|{ua}|{ub}", mol(tok("N"), sto("[>]", [ua, ub], [], "[<]", g0(round(t, 3))), tok("F")), family="rand-copolymer")
    # weights on the [>] side (pick of the open descriptor irrelevant: single open) and on both
    yield Instance("rand-w-right", mol(tok("N"), sto("[>]", ["[<]CC[>|5|]", "[<|2|]CO[>|0|]"], [], "[<]", g0(60.0)), tok("F")), family="rand-copolymer")
    # 4. end-group initiated, two end group types, weights; $ and directional
    for we in [None, "3", "0"] + (["0.25"] if thorough else []):
        e2 = "[$]O" if we is None else f"[$|{we}|]O"
        yield Instance(f"endstart-sym|{we}", mol(sto("[]", ["[$]CC[$]"], ["[$]N", e2], "[]", g0(30.0))), family="end-initiated")
        e2d = "[<]O" if we is None else f"[<|{we}|]O"
        yield Instance(f"endstart-dir|{we}", mol(sto("[]", ["[<]CC[>]"], ["[>]N", e2d, "[<]F"], "[]", g0(30.0))), family="end-initiated")
    # end-group initiated, open right end handed to a suffix
    yield Instance("endstart-suffix", mol(sto("[]", ["[<]CC[>]", "[<]CO[>]"], ["[>]N"], "[<]", g0(40.0)), tok("F")), family="end-initiated")
    yield Instance("endstart-suffix-two-ends", mol(sto("[]", ["[<]CC[>]"], ["[>]N", "[<|0|]F"], "[<]", g0(40.0)), tok("O")), family="end-initiated")
    # 5. block copolymer: two objects with and without connector; three objects
    a, b = units[0], units[1]
    yield Instance("block-noconn", mol(tok("N"), sto("[>]", [a], [], "[<]", g0(40.0)), sto("[>]", [b], [], "[<]", g0(40.0)), tok("F")), family="block")
    yield Instance("block-conn", mol(tok("N"), sto("[>]", [a], [], "[<]", g0(40.0)), tok("S"), sto("[>]", [b], [], "[<]", g0(40.0)), tok("F")), family="block")
    yield Instance("block-conn-explicit", mol(tok("N[>|0|]"), sto("[>]", [a], [], "[<]", g0(40.0)), tok("[<]SC[>|0|]"), sto("[>]", [b], [], "[<]", g0(40.0)), tok("[<]F")), family="block")
    yield Instance("block-rand-rand", mol(tok("N"), sto("[>]", [a, "[<|2|]CS[>]"], [], "[<]", g0(40.0)), tok("P"), sto("[>]", [b, "[<]C(F)[>]"], [], "[<]", g0(35.0)), tok("F")), family="block")
    yield Instance("block-sym-conn", mol(tok("N"), sto("[$]", ["[$]CC[$]"], [], "[$]", g0(40.0)), tok("S"), sto("[$]", ["[$]CO[$]"], [], "[$]", g0(40.0)), tok("F")), family="block")
    yield Instance("block-three", mol(tok("N"), sto("[>]", [a], [], "[<]", g0(30.0)), sto("[>]", [b], [], "[<]", g0(30.0)), tok("S"), sto("[>]", ["[<]CS[>]"], [], "[<]", g0(30.0)), tok("F")), family="block")
    if thorough:
        yield Instance("block-endgroups", mol(tok("N"), sto("[>]", ["[<]CC([>])[>]"], ["[<]Cl"], "[<]", g0(40.0)), tok("S"), sto("[>]", ["[<]CO[>]"], [], "[<]", g0(40.0)), tok("F")), family="block")
    # second block entered in the opposite direction
    yield Instance("block-reversed-second", mol(tok("N"), sto("[>]", [a], [], "[<]", g0(40.0)), tok("[<]S[<|0|]"), sto("[<]", [b], [], "[>]", g0(40.0)), tok("[>]F")), family="block")
    # 6. alternating through ids
    yield Instance("alt-ids", mol(tok("N"), sto("[$1]", ["[$1]CC[$2]", "[$2]CO[$1]"], [], "[$1]", g0(70.0)), tok("F")), family="alternating")
    yield Instance("alt-ids-dir", mol(tok("N"), sto("[>1]", ["[<1]CC[>2]", "[<2]CO[>1]"], [], "[<1]", g0(70.0)), tok("F")), family="alternating")
    # 7. alternating / terminating through transition lists (descriptor order: rep descriptors then end descriptors)
    yield Instance(
        "alt-trans",
        mol(tok("N"), sto("[>]", ["[<]CC[>|0 0 1 0 0|]", "[<]CO[>|1 0 0 0 0|]"], ["[<]Cl"], "[<]", g0(70.0)), tok("F")),
        family="transitions",
    )
    yield Instance(
        "trans-mixed",
        mol(tok("N"), sto("[>]", ["[<]CC[>|1 0 3 0 0|]", "[<]CO[>]"], ["[<]Cl"], "[<]", g0(60.0)), tok("F")),
        family="transitions",
    )
    yield Instance(
        "trans-left-terminal",
        mol(tok("N"), sto("[>|0 0 1 0|]", ["[<]CC[>]", "[<]CO[>]"], [], "[<]", g0(20.0)), tok("F")),
        family="transitions",
    )
    yield Instance(
        "trans-endgroup-growth",
        mol(sto("[]", ["[<]CC([>|1 0 0 2 0|])[>]"], ["[<]Cl", "[>]N"], "[]", g0(40.0))),
        family="transitions",
    )
    # a descriptor carrying a transition list is left open and handed to the next element (plain left terminal)
    yield Instance(
        "trans-survives-handover",
        mol(sto("[]", ["[<|0 1 0|]CO[>]"], ["[<]F"], "[>]", g0(20.0)), sto("[<]", ["[<]CC[>|3|]", "[<]NN[>|1|]"], ["[>]Cl"], "[]", g0(20.0))),
        family="transitions",
    )
    yield Instance(
        "trans-on-prefix-token",
        mol(tok("N[>|0 1 0 0|]"), sto("[>]", ["[<]CC[>]", "[<|3|]CO[>]"], [], "[<]", g0(20.0)), tok("F")),
        family="transitions",
    )
    yield Instance(
        "trans-handover-to-token",
        mol(tok("N"), sto("[>]", ["[<]CC[>|0 1 0 0|]", "[<]CO[>|1 1 0 0|]"], [], "[<]", g0(40.0)), tok("[<]C([<|3|])F")),
        family="transitions",
    )
    # end-group start with nearly equal weights
    yield Instance("endstart-tiny", mol(sto("[]", ["[$]CC[$]"], ["[$|0|]N", "[$|1e-9|]O"], "[]", g0(30.0))), family="end-initiated")
    # lists whose entries are all equal (all ones, all twos): still a list (total weight = sum), not "no weight"
    yield Instance("trans-all-ones", mol(sto("[]", ["[$|1 1 1|]CC[$]"], ["[$][H]"], "[]", g0(30.0))), family="transitions")
    yield Instance("trans-all-twos", mol(tok("N"), sto("[$]", ["[$]CC[$|2 2 2 2|]", "[$|0|]CO[$|0|]"], [], "[$]", g0(50.0)), tok("F")), family="transitions")
    # transition lists that give weight to an incompatible descriptor: the pick must be refused, never bonded
    yield Instance("trans-incompatible", mol(sto("[]", ["[<]CC[>|3 1 0 0|]"], ["[>]F", "[<]Cl"], "[]", g0(40.0))), family="transitions-illposed")
    yield Instance("trans-incompatible-id", mol(sto("[]", ["[$1]CC[$1|2 0 1 0 0 0|]", "[$2]CO[$2]"], ["[$1]F", "[$2]Cl"], "[]", g0(40.0))), family="transitions-illposed")
    # end groups chosen through a transition list on a branching unit (they are growth steps: the mass test follows)
    yield Instance("trans-endgroup-branching", mol(tok("C"), sto("[>]", ["[<]CC([>|1 0 0 1|])[>|1 0 0 1|]"], ["[<]Br"], "[]", g0(70.0))), family="transitions")
    # negative and zero targets
    yield Instance("negative-target", mol(tok("[H]"), sto("[>]", ["[<]CC[>]"], [], "[<]", g0(-12.5)), tok("O")), family="homo-dir")
    yield Instance("negative-target-endstart", mol(sto("[]", ["[$]CC[$]"], ["[$]N"], "[]", g0(-3.0))), family="end-initiated")
    yield Instance("zero-target", mol(tok("[H]"), sto("[>]", ["[<]CC[>]", "[<]CO[>]"], [], "[<]", g0(0.0)), tok("O")), family="homo-dir")
    # 8. step growth AA / BB
    yield Instance("aabb", mol(sto("[]", ["[<]C(=O)CC(=O)[<]", "[>]NCCN[>]"], ["[<]O", "[>][H]"], "[]", g0(120.0))), family="step-growth")
    yield Instance("aabb-w", mol(sto("[]", ["[<]C(=O)C(=O)[<]", "[>]NCN[>]"], ["[<|2|]O", "[>][H]", "[>|0.5|]F"], "[]", g0(100.0))), family="step-growth")
    # 9. branched: hyper-branched AB2, graft, star
    yield Instance("ab2", mol(sto("[]", ["[<]CC([>])[>]"], ["[>]N", "[<]O"], "[]", g0(40.0))), family="branched")
    yield Instance("ab2-prefix", mol(tok("S"), sto("[>]", ["[<]CN([>])[>]"], ["[<]Cl"], "[<]", g0(60.0)), tok("F")), family="branched")
    yield Instance("graft", mol(tok("N"), sto("[>]", ["[<]CC([$1])[>]", "[<]CO[>]"], ["[$1]CCC"], "[<]", g0(60.0)), tok("F")), family="branched")
    # comb / graft sites that only an end group can close (weight 0: never a growth site), two descriptor classes
    yield Instance("comb-zero", mol(tok("N"), sto("[>]", ["[<]CC(C[<|0|])[>]"], ["[>]Br"], "[<]", g0(60.0)), tok("O")), family="branched")
    yield Instance("comb-zero-sym", mol(tok("N"), sto("[$]", ["[$]CC([$1|0|])C[$]"], ["[$1]F"], "[$]", g0(60.0)), tok("O")), family="branched")
    yield Instance("twoclass-sym", mol(tok("C"), sto("[$1]", ["[$1]CC([$2])C[$1]"], ["[$2]F", "[$1]Cl"], "[$1]", g0(60.0)), tok("O")), family="branched")
    yield Instance("twoclass-dir", mol(tok("C"), sto("[>]", ["[<]CC([<2|0|])[>]", "[<]CO[>]"], ["[>2]F", "[<]Cl"], "[<]", g0(60.0)), tok("O")), family="branched")
    if thorough:
        yield Instance("ab2-w", mol(sto("[]", ["[<]CC([>|3|])[>]", "[<|0.5|]CO[>]"], ["[>]N", "[<]O"], "[]", g0(60.0))), family="branched")
        yield Instance("star3", mol(sto("[]", ["[<]C([<])([<])C", "[>]CC[<]"], ["[>]N", "[<]O"], "[]", g0(80.0))), family="branched")
        yield Instance("ab2-3units", mol(sto("[]", ["[<]CC([>])[>]"], ["[>]N", "[<]O"], "[]", g0(70.0))), family="branched")
    # 10. zero-weight hand-over descriptors written by the user; several descriptors on prefix/suffix
    yield Instance("suffix-two-desc", mol(tok("N"), sto("[>]", ["[<]CC[>]"], [], "[<]", g0(30.0)), tok("[<]C([<|3|])F")), family="handover")
    yield Instance("suffix-two-desc-0", mol(tok("N"), sto("[>]", ["[<]CC[>]"], [], "[<]", g0(30.0)), tok("[<|0|]C([<])F")), family="handover")
    yield Instance("handover-weights", mol(tok("N"), sto("[>]", ["[<|0|]CC[>]", "[<|0|]CO[>]"], [], "[<]", g0(30.0)), tok("F")), family="handover")
    yield Instance("left-terminal-weight", mol(tok("N"), sto("[>|5|]", ["[<]CC[>]", "[<|3|]CO[>]"], [], "[<]", g0(30.0)), tok("F")), family="handover")
    # 11. draws from a menu (uniform law): the target is a genuine choice point
    yield Instance("uniform-menu", mol(tok("N"), sto("[>]", [a, b], [], "[<]", "uniform(10, 90)"), tok("F")), menu=(0.05, 0.3, 0.6, 0.95), family="draw-menu")
    yield Instance("uniform-two-blocks", mol(tok("N"), sto("[>]", [a], [], "[<]", "uniform(10, 90)"), sto("[>]", [b], [], "[<]", "uniform(20, 80)"), tok("F")), menu=(0.1, 0.5, 0.9), family="draw-menu")
    if thorough:
        yield Instance("gauss-menu", mol(tok("N"), sto("[>]", [a, b], [], "[<]", "gauss(50, 20)"), tok("F")), menu=(0.02, 0.3, 0.7, 0.98), family="draw-menu")
    # 11b. double / triple bond descriptors
    yield Instance("double-polyene", mol(sto("[]", ["[$]=CC=[$]"], ["[$]=O", "[$]=C"], "[]", g0(60.0))), family="bond-order")
    yield Instance("double-mixed", mol(tok("N"), sto("[$]", ["[$]C(=[$])C=[$]", "[$]CC[$]"], ["[$]=O", "[$][H]"], "[$]", g0(60.0)), tok("F")), family="bond-order")
    yield Instance("triple-dir", mol(sto("[]", ["[<]#CC#[>]", "[<]#CCC#[>]"], ["[>]#N", "[<]#C"], "[]", g0(60.0))), family="bond-order")
    # 12. bare stochastic object with open ends / molecule without suffix
    yield Instance("open-right", mol(tok("N"), sto("[>]", [a, b], [], "[<]", g0(40.0))), family="open-ends")
    # 13. aromatic / charged / ring unit mixes
    yield Instance("chem-mix", mol(tok("[NH3+]C"), sto("[>]", ["[<]CC([>])c1ccccc1", "[<]C[NH2+][>]"], [], "[<]", g0(110.0)), tok("C(=O)[O-]")), family="chemistry")
    # explicit hydrogens written inside tokens (merged into their heavy atom by RDKit), [H] end groups
    yield Instance("explicit-h", mol(tok("N"), sto("[$]", ["[$]C([H])(C#N)[$]", "[$]CC[$]"], [], "[$]", g0(70.0)), tok("F")), family="chemistry")
    yield Instance("explicit-h-prefix", mol(tok("CC([H])(C)"), sto("[>]", ["[<]C(C#N)([H])[>]"], [], "[<]", g0(60.0)), tok("[H]")), family="chemistry")
    yield Instance("nitrile-branch", mol(tok("N"), sto("[$]", ["[$]CC(C#N)([$])", "[$]CC(Cl)([$])"], [], "[$]", g0(70.0)), tok("F")), family="chemistry")
    if thorough:
        yield Instance("chem-mix2", mol(tok("c1ccccc1C"), sto("[>]", ["[<]C1CCC([>])CC1", "[<][Si](C)(C)[>]", "[<]C(Cl)C[>]"], [], "[<]", g0(150.0)), tok("Br")), family="chemistry")
