"""Bounded instance families (archetypes) for the generation properties.  Every family is a function from a
small parameter tuple to a molecule description; families are enumerated over their whole (tier-dependent)
parameter domain.  VERIF_SEED only rotates which extra token-library entries are combined in; it never drives a
statistical decision."""
import itertools

from .genexp import Instance
from .refsem import sto, tok, token_ref

# directional repeat units  (text, short name)
UNITS_DIR = [
    "[<]CC[>]",
    "[<]CO[>]",
    "[<]CC([>])c1ccccc1",
    "[<]C[NH2+][>]",
    "[<][Si](C)(C)[>]",
    "[<]C(Cl)C[>]",
    "[<]C1CCC([>])CC1",
    "[<]CC(C)([>])C(=O)OC",
    "[<]C(=O)c1ccc(cc1)C(=O)[>]",
    "[<]N[>]",
    "[<][13CH2]C[>]",
    "[<]C([2H])([2H])O[>]",
]
UNITS_SYM = ["[$]CC[$]", "[$]CO[$]", "[$]CC([$])c1ccccc1", "[$]C(Br)C[$]", "[$]C([$])C=O"]
PREFIXES = ["N", "[H]", "CC", "OC", "c1ccccc1C", "[NH3+]C", "ClC"]
SUFFIXES = ["F", "[H]", "CO", "C(C)CC(c1ccccc1)c1ccccc1", "Br", "C#N"]


def mass(t):
    return token_ref(t).mass


def g0(x):
    return f"gauss({x!r}, 0)"


def mol(*els, mixture=None):
    return {"elements": list(els), "mixture": mixture}


def rot(lst, seed, k):
    """always the first entry + k entries rotated by seed"""
    if len(lst) <= k + 1:
        return list(lst)
    rest = lst[1:]
    s = seed % len(rest)
    return [lst[0]] + (rest[s:] + rest[:s])[:k]


def w(text, idx, weight):
    """put a weight text on the idx-th descriptor of a token text"""
    from .refsem import DESC_RE

    ms = list(DESC_RE.finditer(text))
    m = ms[idx]
    d = m.group(0)
    core = d[: d.index("|")] if "|" in d else d[:-1]
    return text[: m.start()] + core + "|" + weight + "|]" + text[m.end() :]


def families(tier, seed):
    """yield Instance objects"""
    thorough = tier == "thorough"
    nu = 6 if thorough else 2
    units = rot(UNITS_DIR, seed, nu)
    prefixes = rot(PREFIXES, seed, 3 if thorough else 1)
    suffixes = rot(SUFFIXES, seed, 3 if thorough else 1)

    # 1. homopolymer, directional, prefix + suffix, targets around 1..3 units (non boundary)
    for u, p, s in itertools.product(units, prefixes, suffixes):
        m = mass(u)
        for k in ([0.5, 1.5, 2.5] if not thorough else [-1, 0.5, 1.5, 2.5, 3.5]):
            yield Instance(f"homo-dir|{u}|{p}|{s}|{k}", mol(tok(p), sto("[>]", [u], [], "[<]", g0(round(k * m, 3))), tok(s)), family="homo-dir")
    # same, reversed orientation of the terminals (object entered through its [>] side)
    for u in units[:2]:
        m = mass(u)
        yield Instance(f"homo-rev|{u}", mol(tok("N"), sto("[<]", [u], [], "[>]", g0(round(1.5 * m, 3))), tok("F")), family="homo-rev")
    # 2. homopolymer with $ descriptors
    for u in rot(UNITS_SYM, seed, 3 if thorough else 1):
        m = mass(u)
        ends = ["[$][H]"] if u.count("[$]") > 2 else []
        for k in [0.5, 1.5] + ([2.5] if thorough else []):
            yield Instance(f"homo-sym|{u}|{k}", mol(tok("N"), sto("[$]", [u], ends, "[$]", g0(round(k * m, 3))), tok("F")), family="homo-sym")
    # 3. random copolymer, two units, all weight forms
    wforms = [(None, None), ("3", None), ("0", None), ("0", "0"), ("0.5", "0.5"), ("2", "6")]
    # tiny / nearly equal weights: "equal" means equal, not "close"
    wforms += [("0", "1e-9"), ("1e-9", "3e-9"), ("1", "1.000001")]
    if thorough:
        wforms += [(None, "0"), ("1e-3", "1"), ("3.", ".5"), ("1e-12", "0"), ("1e5", "100001")]
    pairs = [(units[0], units[1])] + ([(units[1], units[2]), (units[0], units[3])] if thorough else [])
    for (a, b), (wa, wb) in itertools.product(pairs, wforms):
        ua = w(a, 0, wa) if wa is not None else a
        ub = w(b, 0, wb) if wb is not None else b
        t = 1.6 * max(mass(a), mass(b))
        yield Instance(f"rand|{ua}|{ub}", mol(tok("N"), sto("[>]", [ua, ub], [], "[<]", g0(round(t, 3))), tok("F")), family="rand-copolymer")
    # weights on the [>] side (pick of the open descriptor irrelevant: single open) and on both
    yield Instance("rand-w-right", mol(tok("N"), sto("[>]", ["[<]CC[>|5|]", "[<|2|]CO[>|0|]"], [], "[<]", g0(60.0)), tok("F")), family="rand-copolymer")
    # 4. end-group initiated, two end group types, weights; $ and directional
    for we in [None, "3", "0"] + (["0.25"] if thorough else []):
        e2 = "[$]O" if we is None else f"[$|{we}|]O"
        yield Instance(f"endstart-sym|{we}", mol(sto("[]", ["[$]CC[$]"], ["[$]N", e2], "[]", g0(30.0))), family="end-initiated")
        e2d = "[<]O" if we is None else f"[<|{we}|]O"
        yield Instance(f"endstart-dir|{we}", mol(sto("[]", ["[<]CC[>]"], ["[>]N", e2d, "[<]F"], "[]", g0(30.0))), family="end-initiated")
    # end-group initiated, open right end handed to a suffix
    yield Instance("endstart-suffix", mol(sto("[]", ["[<]CC[>]", "[<]CO[>]"], ["[>]N"], "[<]", g0(40.0)), tok("F")), family="end-initiated")
    yield Instance("endstart-suffix-two-ends", mol(sto("[]", ["[<]CC[>]"], ["[>]N", "[<|0|]F"], "[<]", g0(40.0)), tok("O")), family="end-initiated")
    # 5. block copolymer: two objects with and without connector; three objects
    a, b = units[0], units[1]
    yield Instance("block-noconn", mol(tok("N"), sto("[>]", [a], [], "[<]", g0(40.0)), sto("[>]", [b], [], "[<]", g0(40.0)), tok("F")), family="block")
    yield Instance("block-conn", mol(tok("N"), sto("[>]", [a], [], "[<]", g0(40.0)), tok("S"), sto("[>]", [b], [], "[<]", g0(40.0)), tok("F")), family="block")
    yield Instance("block-conn-explicit", mol(tok("N[>|0|]"), sto("[>]", [a], [], "[<]", g0(40.0)), tok("[<]SC[>|0|]"), sto("[>]", [b], [], "[<]", g0(40.0)), tok("[<]F")), family="block")
    yield Instance("block-rand-rand", mol(tok("N"), sto("[>]", [a, "[<|2|]CS[>]"], [], "[<]", g0(40.0)), tok("P"), sto("[>]", [b, "[<]C(F)[>]"], [], "[<]", g0(35.0)), tok("F")), family="block")
    yield Instance("block-sym-conn", mol(tok("N"), sto("[$]", ["[$]CC[$]"], [], "[$]", g0(40.0)), tok("S"), sto("[$]", ["[$]CO[$]"], [], "[$]", g0(40.0)), tok("F")), family="block")
    yield Instance("block-three", mol(tok("N"), sto("[>]", [a], [], "[<]", g0(30.0)), sto("[>]", [b], [], "[<]", g0(30.0)), tok("S"), sto("[>]", ["[<]CS[>]"], [], "[<]", g0(30.0)), tok("F")), family="block")
    if thorough:
        yield Instance("block-endgroups", mol(tok("N"), sto("[>]", ["[<]CC([>])[>]"], ["[<]Cl"], "[<]", g0(40.0)), tok("S"), sto("[>]", ["[<]CO[>]"], [], "[<]", g0(40.0)), tok("F")), family="block")
    # the same token text (same descriptor offset) in two objects of one molecule: A-B-A triblock, shared end groups
    yield Instance("triblock-aba", mol(tok("N"), sto("[>]", [a], [], "[<]", g0(30.0)), tok("S"), sto("[>]", [b], [], "[<]", g0(30.0)), tok("P"), sto("[>]", [a], [], "[<]", g0(30.0)), tok("F")), family="block")
    yield Instance("two-objects-same-units-and-ends", mol(tok("N"), sto("[>]", ["[<|3|]CC[>]", "[<]CO[>]"], ["[<][H]"], "[<]", g0(30.0)), sto("[>]", ["[<]CC[>]", "[<|3|]CO[>]"], ["[<][H]"], "[<]", g0(30.0)), tok("F")), family="block")
    # explicit id 0 (an id, not "no id") on terminals, units, end groups and the inserted descriptors
    yield Instance("id-zero-sym", mol(tok("C"), sto("[$0]", ["[$0]CC[$0]"], ["[$0]F"], "[$0]", g0(40.0)), tok("N")), family="ids")
    yield Instance("id-zero-dir", mol(tok("C"), sto("[>0]", ["[<0]CC[>0]", "[<0]CO[>0]"], [], "[<0]", g0(40.0)), sto("[>0]", ["[<0]CS[>0]"], [], "[<0]", g0(50.0)), tok("N")), family="ids")
    yield Instance("id-zero-vs-none", mol(sto("[]", ["[$0]CC[$0]", "[$]CO[$]"], ["[$0]F", "[$]Cl"], "[]", g0(50.0))), family="ids")
    # second block entered in the opposite direction
    yield Instance("block-reversed-second", mol(tok("N"), sto("[>]", [a], [], "[<]", g0(40.0)), tok("[<]S[<|0|]"), sto("[<]", [b], [], "[>]", g0(40.0)), tok("[>]F")), family="block")
    # 6. alternating through ids
    yield Instance("alt-ids", mol(tok("N"), sto("[$1]", ["[$1]CC[$2]", "[$2]CO[$1]"], [], "[$1]", g0(70.0)), tok("F")), family="alternating")
    yield Instance("alt-ids-dir", mol(tok("N"), sto("[>1]", ["[<1]CC[>2]", "[<2]CO[>1]"], [], "[<1]", g0(70.0)), tok("F")), family="alternating")
    # 7. alternating / terminating through transition lists (descriptor order: rep descriptors then end descriptors)
    yield Instance(
        "alt-trans",
        mol(tok("N"), sto("[>]", ["[<]CC[>|0 0 1 0 0|]", "[<]CO[>|1 0 0 0 0|]"], ["[<]Cl"], "[<]", g0(70.0)), tok("F")),
        family="transitions",
    )
    yield Instance(
        "trans-mixed",
        mol(tok("N"), sto("[>]", ["[<]CC[>|1 0 3 0 0|]", "[<]CO[>]"], ["[<]Cl"], "[<]", g0(60.0)), tok("F")),
        family="transitions",
    )
    yield Instance(
        "trans-left-terminal",
        mol(tok("N"), sto("[>|0 0 1 0|]", ["[<]CC[>]", "[<]CO[>]"], [], "[<]", g0(20.0)), tok("F")),
        family="transitions",
    )
    yield Instance(
        "trans-endgroup-growth",
        mol(sto("[]", ["[<]CC([>|1 0 0 2 0|])[>]"], ["[<]Cl", "[>]N"], "[]", g0(40.0))),
        family="transitions",
    )
    # a descriptor carrying a transition list is left open and handed to the next element (plain left terminal)
    yield Instance(
        "trans-survives-handover",
        mol(sto("[]", ["[<|0 1 0|]CO[>]"], ["[<]F"], "[>]", g0(20.0)), sto("[<]", ["[<]CC[>|3|]", "[<]NN[>|1|]"], ["[>]Cl"], "[]", g0(20.0))),
        family="transitions",
    )
    yield Instance(
        "trans-on-prefix-token",
        mol(tok("N[>|0 1 0 0|]"), sto("[>]", ["[<]CC[>]", "[<|3|]CO[>]"], [], "[<]", g0(20.0)), tok("F")),
        family="transitions",
    )
    yield Instance(
        "trans-handover-to-token",
        mol(tok("N"), sto("[>]", ["[<]CC[>|0 1 0 0|]", "[<]CO[>|1 1 0 0|]"], [], "[<]", g0(40.0)), tok("[<]C([<|3|])F")),
        family="transitions",
    )
    # end-group start with nearly equal weights
    yield Instance("endstart-tiny", mol(sto("[]", ["[$]CC[$]"], ["[$|0|]N", "[$|1e-9|]O"], "[]", g0(30.0))), family="end-initiated")
    # lists whose entries are all equal (all ones, all twos): still a list (total weight = sum), not "no weight"
    yield Instance("trans-all-ones", mol(sto("[]", ["[$|1 1 1|]CC[$]"], ["[$][H]"], "[]", g0(30.0))), family="transitions")
    yield Instance("trans-all-twos", mol(tok("N"), sto("[$]", ["[$]CC[$|2 2 2 2|]", "[$|0|]CO[$|0|]"], [], "[$]", g0(50.0)), tok("F")), family="transitions")
    # transition lists that give weight to an incompatible descriptor: the pick must be refused, never bonded
    yield Instance("trans-incompatible", mol(sto("[]", ["[<]CC[>|3 1 0 0|]"], ["[>]F", "[<]Cl"], "[]", g0(40.0))), family="transitions-illposed")
    yield Instance("trans-incompatible-id", mol(sto("[]", ["[$1]CC[$1|2 0 1 0 0 0|]", "[$2]CO[$2]"], ["[$1]F", "[$2]Cl"], "[]", g0(40.0))), family="transitions-illposed")
    # end groups chosen through a transition list on a branching unit (they are growth steps: the mass test follows)
    yield Instance("trans-endgroup-branching", mol(tok("C"), sto("[>]", ["[<]CC([>|1 0 0 1|])[>|1 0 0 1|]"], ["[<]Br"], "[]", g0(70.0))), family="transitions")
    # negative and zero targets
    yield Instance("negative-target", mol(tok("[H]"), sto("[>]", ["[<]CC[>]"], [], "[<]", g0(-12.5)), tok("O")), family="homo-dir")
    yield Instance("negative-target-endstart", mol(sto("[]", ["[$]CC[$]"], ["[$]N"], "[]", g0(-3.0))), family="end-initiated")
    yield Instance("zero-target", mol(tok("[H]"), sto("[>]", ["[<]CC[>]", "[<]CO[>]"], [], "[<]", g0(0.0)), tok("O")), family="homo-dir")
    # 8. step growth AA / BB
    yield Instance("aabb", mol(sto("[]", ["[<]C(=O)CC(=O)[<]", "[>]NCCN[>]"], ["[<]O", "[>][H]"], "[]", g0(120.0))), family="step-growth")
    yield Instance("aabb-w", mol(sto("[]", ["[<]C(=O)C(=O)[<]", "[>]NCN[>]"], ["[<|2|]O", "[>][H]", "[>|0.5|]F"], "[]", g0(100.0))), family="step-growth")
    # 9. branched: hyper-branched AB2, graft, star
    yield Instance("ab2", mol(sto("[]", ["[<]CC([>])[>]"], ["[>]N", "[<]O"], "[]", g0(40.0))), family="branched")
    yield Instance("ab2-prefix", mol(tok("S"), sto("[>]", ["[<]CN([>])[>]"], ["[<]Cl"], "[<]", g0(60.0)), tok("F")), family="branched")
    yield Instance("graft", mol(tok("N"), sto("[>]", ["[<]CC([$1])[>]", "[<]CO[>]"], ["[$1]CCC"], "[<]", g0(60.0)), tok("F")), family="branched")
    # comb / graft sites that only an end group can close (weight 0: never a growth site), two descriptor classes
    yield Instance("comb-zero", mol(tok("N"), sto("[>]", ["[<]CC(C[<|0|])[>]"], ["[>]Br"], "[<]", g0(60.0)), tok("O")), family="branched")
    yield Instance("comb-zero-sym", mol(tok("N"), sto("[$]", ["[$]CC([$1|0|])C[$]"], ["[$1]F"], "[$]", g0(60.0)), tok("O")), family="branched")
    yield Instance("twoclass-sym", mol(tok("C"), sto("[$1]", ["[$1]CC([$2])C[$1]"], ["[$2]F", "[$1]Cl"], "[$1]", g0(60.0)), tok("O")), family="branched")
    yield Instance("twoclass-dir", mol(tok("C"), sto("[>]", ["[<]CC([<2|0|])[>]", "[<]CO[>]"], ["[>2]F", "[<]Cl"], "[<]", g0(60.0)), tok("O")), family="branched")
    if thorough:
        yield Instance("ab2-w", mol(sto("[]", ["[<]CC([>|3|])[>]", "[<|0.5|]CO[>]"], ["[>]N", "[<]O"], "[]", g0(60.0))), family="branched")
        yield Instance("star3", mol(sto("[]", ["[<]C([<])([<])C", "[>]CC[<]"], ["[>]N", "[<]O"], "[]", g0(80.0))), family="branched")
        yield Instance("ab2-3units", mol(sto("[]", ["[<]CC([>])[>]"], ["[>]N", "[<]O"], "[]", g0(70.0))), family="branched")
    # 10. zero-weight hand-over descriptors written by the user; several descriptors on prefix/suffix
    yield Instance("suffix-two-desc", mol(tok("N"), sto("[>]", ["[<]CC[>]"], [], "[<]", g0(30.0)), tok("[<]C([<|3|])F")), family="handover")
    yield Instance("suffix-two-desc-0", mol(tok("N"), sto("[>]", ["[<]CC[>]"], [], "[<]", g0(30.0)), tok("[<|0|]C([<])F")), family="handover")
    yield Instance("handover-weights", mol(tok("N"), sto("[>]", ["[<|0|]CC[>]", "[<|0|]CO[>]"], [], "[<]", g0(30.0)), tok("F")), family="handover")
    yield Instance("left-terminal-weight", mol(tok("N"), sto("[>|5|]", ["[<]CC[>]", "[<|3|]CO[>]"], [], "[<]", g0(30.0)), tok("F")), family="handover")
    # 11. draws from a menu (uniform law): the target is a genuine choice point
    yield Instance("uniform-menu", mol(tok("N"), sto("[>]", [a, b], [], "[<]", "uniform(10, 90)"), tok("F")), menu=(0.05, 0.3, 0.6, 0.95), family="draw-menu")
    yield Instance("uniform-two-blocks", mol(tok("N"), sto("[>]", [a], [], "[<]", "uniform(10, 90)"), sto("[>]", [b], [], "[<]", "uniform(20, 80)"), tok("F")), menu=(0.1, 0.5, 0.9), family="draw-menu")
    if thorough:
        yield Instance("gauss-menu", mol(tok("N"), sto("[>]", [a, b], [], "[<]", "gauss(50, 20)"), tok("F")), menu=(0.02, 0.3, 0.7, 0.98), family="draw-menu")
    # 11b. double / triple bond descriptors
    yield Instance("double-polyene", mol(sto("[]", ["[$]=CC=[$]"], ["[$]=O", "[$]=C"], "[]", g0(60.0))), family="bond-order")
    yield Instance("double-mixed", mol(tok("N"), sto("[$]", ["[$]C(=[$])C=[$]", "[$]CC[$]"], ["[$]=O", "[$][H]"], "[$]", g0(60.0)), tok("F")), family="bond-order")
    yield Instance("triple-dir", mol(sto("[]", ["[<]#CC#[>]", "[<]#CCC#[>]"], ["[>]#N", "[<]#C"], "[]", g0(60.0))), family="bond-order")
    # the prefix's own descriptor prescribes the bond order of the first bond (the left terminal is written plain)
    yield Instance("prefix-explicit-double", mol(tok("CC=[$]"), sto("[$]", ["[$]=CC=[$]", "[$]CC[$]"], ["[$][H]", "[$]=O"], "[]", g0(60.0))), family="bond-order")
    yield Instance("prefix-explicit-triple", mol(tok("N#[>]"), sto("[>]", ["[<]#CC#[>]", "[<]CC[>]"], ["[>]#N", "[>]F"], "[]", g0(40.0))), family="bond-order")
    # isotope labelled units: the heavy-atom mass is the isotope's
    yield Instance("isotope-unit", mol(tok("N"), sto("[>]", ["[<][13CH2][13CH2][>]", "[<]C[14CH2][>]"], [], "[<]", g0(55.0)), tok("F")), family="chemistry")
    yield Instance("isotope-endstart", mol(sto("[]", ["[$]C[13CH2][$]"], ["[$][H]", "[$]Br"], "[]", g0(57.0))), family="end-initiated")
    # the same fragment written in two atom orders inside one object (end groups in reading direction on both ends);
    # isotope labelled hydrogens written before the atom that carries the descriptor
    yield Instance("same-fragment-two-spellings", mol(sto("[]", ["[<]CC[>]"], ["FC(F)(F)[>]", "[<]C(F)(F)F"], "[]", g0(30.0))), family="chemistry")
    yield Instance("same-fragment-two-spellings-acyl", mol(sto("[]", ["[<]CO[>]"], ["ClC(=O)[>]", "[<]C(=O)Cl"], "[]", g0(30.0))), family="chemistry")
    yield Instance("deuterated-end-groups", mol(sto("[]", ["[<]CC[>]"], ["[2H]C([2H])([2H])[>]", "[<]C([2H])([2H])[2H]"], "[]", g0(30.0))), family="chemistry")
    yield Instance("same-fragment-units", mol(tok("N"), sto("[>]", ["[<]CCO[>]", "[<]OCC[>]", "[<]C(O)C[>]"], [], "[<]", g0(80.0)), tok("F")), family="chemistry")
    # 12. bare stochastic object with open ends / molecule without suffix
    yield Instance("open-right", mol(tok("N"), sto("[>]", [a, b], [], "[<]", g0(40.0))), family="open-ends")
    # 13. aromatic / charged / ring unit mixes
    yield Instance("chem-mix", mol(tok("[NH3+]C"), sto("[>]", ["[<]CC([>])c1ccccc1", "[<]C[NH2+][>]"], [], "[<]", g0(110.0)), tok("C(=O)[O-]")), family="chemistry")
    # explicit hydrogens written inside tokens (merged into their heavy atom by RDKit), [H] end groups
    yield Instance("explicit-h", mol(tok("N"), sto("[$]", ["[$]C([H])(C#N)[$]", "[$]CC[$]"], [], "[$]", g0(70.0)), tok("F")), family="chemistry")
    yield Instance("explicit-h-prefix", mol(tok("CC([H])(C)"), sto("[>]", ["[<]C(C#N)([H])[>]"], [], "[<]", g0(60.0)), tok("[H]")), family="chemistry")
    yield Instance("nitrile-branch", mol(tok("N"), sto("[$]", ["[$]CC(C#N)([$])", "[$]CC(Cl)([$])"], [], "[$]", g0(70.0)), tok("F")), family="chemistry")
    # 14. token topology x role: each role (start end group, capping end group, prefix, suffix, connector, repeat unit)
    #     with a ring, an aromatic ring, a branched, an unsaturated, a ring-with-bond-symbol-on-the-closure and (thorough) a
    #     fused-ring token, descriptor on the first atom / on the last atom / in the middle of the token
    topo = {"ring": "C1CCCCC1", "aromatic": "c1ccccc1", "branched": "C(C)(C)CO", "unsaturated": "C(C#N)=C", "ringbond": "C1CCCC=C1", "closurebond": "C1CCCC=1",
            # attachment atom in a higher valence state (sulfone / sulfoxide S, phosphate P): its hydrogen count after bonding
            "sulfone": "S(=O)(=O)C", "sulfoxide": "S(=O)C", "phosphate": "P(=O)(OC)O"}
    if thorough:
        topo.update({"fused": "C1CCC2CCCCC2C1", "hetero": "c1ccncc1", "spiro-ish": "C1CC1C1CC1"})
    for tn, body in topo.items():
        t15 = g0(round(1.5 * mass("[<]CO[>]"), 3))
        yield Instance(f"topo-endgroups|{tn}", mol(sto("[]", ["[<]CO[>]"], ["[>]" + body, body + "[<]"], "[]", t15)), family="role-topology")
        yield Instance(f"topo-prefix-suffix|{tn}", mol(tok(body), sto("[>]", ["[<]CO[>]"], [], "[<]", t15), tok(body)), family="role-topology")
        yield Instance(f"topo-connector|{tn}", mol(tok("N"), sto("[>]", ["[<]CO[>]"], [], "[<]", t15), tok(body), sto("[>]", ["[<]CS[>]"], [], "[<]", g0(50.0)), tok("F")), family="role-topology")
        yield Instance(f"topo-connector-explicit|{tn}", mol(tok("N"), sto("[>]", ["[<]CO[>]"], [], "[<]", t15), tok("[<]" + body + "[>|0|]"), sto("[>]", ["[<]CS[>]"], [], "[<]", g0(50.0)), tok("F")), family="role-topology")
        u1 = "[<]C([>])" + body
        yield Instance(f"topo-unit-side|{tn}", mol(tok("N"), sto("[>]", [u1, "[<]CO[>]"], ["[<]Cl"], "[<]", g0(round(1.2 * mass(u1), 3))), tok("F")), family="role-topology")
        u2 = "[<]" + body + "[>]"
        yield Instance(f"topo-unit-backbone|{tn}", mol(tok("N"), sto("[>]", [u2], [], "[<]", g0(round(1.5 * mass(u2), 3))), tok("F")), family="role-topology")
    # 19. side chains that grow AND terminate through transition lists while the backbone keeps growing (bottle brush): steps
    #     that add an end group of (almost) no mass are growth steps too; lists on the left terminal that do not sum to 1
    yield Instance("brush-mini|70", mol(tok("N"), sto("[$]", ["[$]C([<|3|])C[$]", "[>]CO[<|0 0 0 1 0 2|]"], ["[>][H]"], "[$]", g0(70.0)), tok("Br")), family="transitions")
    yield Instance("brush-h|70", mol(tok("N"), sto("[$]", ["[$]C([<|0 0 0 1|])C[$]"], ["[>][H]"], "[$]", g0(70.0)), tok("Br")), family="transitions")
    if thorough:
        yield Instance("brush-h|two-units", mol(tok("N"), sto("[$]", ["[$]C([<|0 0 0 0 0 0 1|])C[$]", "[$]C([<|0 0 0 0 0 0 1|])O[$]"], ["[>][H]"], "[$]", g0(50.0)), tok("Br")), family="transitions")
    yield Instance("left-list-unnormalised", mol(tok("N"), sto("[>|3 0 1 0|]", ["[<]CC[>]", "[<]CO[>]"], [], "[<]", g0(40.0)), tok("F")), family="transitions")
    yield Instance("left-list-unnormalised-branch", mol(tok("OC"), sto("[>|3 0 1 0|]", ["[<]CC([>|2|])C(=O)OC", "[<]CC[>]"], [], "[<]", g0(60.0)), tok("[H]")), family="transitions")
    # 18. hand-over details: explicit connector whose two descriptors both carry weight 1 (or 2 / 1); two ADJACENT objects the
    #     first of which is capped with heavy end groups at its hand-over; a list on the descriptor of the STARTING end group
    yield Instance("conn-weights|1-1", mol(tok("N"), sto("[>]", [a], [], "[<]", g0(40.0)), tok("[<]C(=O)O[>]"), sto("[>]", [b], [], "[<]", g0(40.0)), tok("F")), family="handover-details")
    yield Instance("conn-weights|2-1", mol(tok("N"), sto("[>]", [a], [], "[<]", g0(40.0)), tok("[<|2|]SC[>]"), sto("[>]", [b], [], "[<]", g0(40.0)), tok("F")), family="handover-details")
    yield Instance("adjacent|branched-heavy-caps", mol(tok("C"), sto("[$]", ["[$]C([$])C[$]"], ["[$]CCCC"], "[$]", g0(30.0)), sto("[$]", ["[$]CC[$]"], [], "[$]", g0(60.0)), tok("O")), family="handover-details")
    yield Instance("adjacent|branched-heavy-caps-dir", mol(tok("C"), sto("[>]", ["[<]C([>])C[>]"], ["[<]Br"], "[<]", g0(30.0)), sto("[>]", ["[<]CO[>]"], [], "[<]", g0(45.0)), tok("N")), family="handover-details")
    yield Instance("start-endgroup-list", mol(sto("[]", ["[<]CC[>]", "[<]NC[>]"], ["[>|0 0 1 0 0 0|]F", "[<|0|]Cl"], "[]", g0(40.0))), family="handover-details")
    yield Instance("start-endgroup-list-sym", mol(sto("[]", ["[$]CC[$]", "[$]NC[$|2|]"], ["[$|0 0 1 1 0 0|]F", "[$|0|]Cl"], "[]", g0(40.0))), family="handover-details")
    # 17. mono-functional repeat units (chain stoppers): a random path can use up the last open descriptor before the
    #     following element attaches - the notation then has no molecule for that path, the library must raise there
    yield Instance("stopper|sym", mol(tok("N"), sto("[$]", ["[$]CC[$]", "[$|0.3|]F"], [], "[$]", g0(60.0)), tok("O")), family="chain-stopper")
    yield Instance("stopper|dir", mol(tok("N"), sto("[>]", ["[<]CC[>]", "[<]Cl"], [], "[<]", g0(60.0)), tok("O")), family="chain-stopper")
    yield Instance("stopper|two-objects", mol(tok("N"), sto("[$]", ["[$]CC[$]", "[$]F"], [], "[$]", g0(40.0)), sto("[$]", ["[$]CO[$]"], [], "[$]", g0(40.0)), tok("Br")), family="chain-stopper")
    # 16. objects whose two terminals are NOT a conjugate pair (step growth AA + BB: both terminals [>]; ids 1 / 2), as
    #     second element behind a prefix and in front of a suffix / another object
    yield Instance("nonconj|aabb", mol(tok("CC(=O)"), sto("[>]", ["[<]OCCO[<]", "[>]C(=O)CC(=O)[>]"], [], "[>]", g0(100.0)), tok("C(=O)C")), family="nonconjugate-terminals")
    yield Instance("nonconj|aabb-then-object", mol(tok("CC(=O)"), sto("[>]", ["[<]OCCO[<]", "[>]C(=O)CC(=O)[>]"], [], "[>]", g0(100.0)), sto("[<]", ["[>]CS[<]"], [], "[>]", g0(50.0)), tok("[<]F")), family="nonconjugate-terminals")
    yield Instance("nonconj|ids", mol(tok("N"), sto("[$1]", ["[$1]CC[$2]", "[$2]CO[$1]"], [], "[$2]", g0(60.0)), tok("F")), family="nonconjugate-terminals")
    yield Instance("nonconj|ids-dir", mol(tok("N"), sto("[>1]", ["[<1]CC[>2]", "[<2]CO[>1]"], [], "[<2]", g0(60.0)), tok("F")), family="nonconjugate-terminals")
    # 15. one descriptor symbol in two bond orders inside ONE object (a cache / table keyed by the descriptor text alone
    #     confuses them): units with a single- and a double-bond descriptor, end groups of both orders, prefix hand-over
    t20 = g0(round(1.6 * mass("[$]CC=[$]"), 3))
    yield Instance("mixed-orders|ends", mol(sto("[]", ["[$]CC=[$]"], ["[$]C", "[$]=O"], "[]", t20)), family="mixed-bond-orders")
    yield Instance("mixed-orders|branch", mol(tok("N"), sto("[$]", ["[$]CC(=[$])C[$]"], ["[$]F", "[$]=O"], "[$]", g0(round(1.2 * mass("[$]CC(=[$])C[$]"), 3))), tok("Br")), family="mixed-bond-orders")
    yield Instance("mixed-orders|units", mol(tok("N"), sto("[$]", ["[$]CC[$]", "[$]=CC=[$]", "[$]C(C)=[$]"], ["[$][H]", "[$]=O"], "[$]", g0(50.0)), tok("F")), family="mixed-bond-orders")
    yield Instance("mixed-orders|dir", mol(tok("N"), sto("[>]", ["[<]CC=[>]", "[<]=CC[>]"], ["[<]=O", "[<]F"], "[<]", g0(45.0)), tok("Cl")), family="mixed-bond-orders")
    yield Instance("mixed-orders|prefix-double", mol(tok("CC=[$]"), sto("[$]", ["[$]=CC[$]", "[$]CC=[$]"], ["[$][H]", "[$]=O"], "[]", g0(45.0))), family="mixed-bond-orders")
    if thorough:
        yield Instance("chem-mix2", mol(tok("c1ccccc1C"), sto("[>]", ["[<]C1CCC([>])CC1", "[<][Si](C)(C)[>]", "[<]C(Cl)C[>]"], [], "[<]", g0(150.0)), tok("Br")), family="chemistry")


# ----------------------------------------------------------------------------------------------------------------------
# Feature product: instances assembled from independent feature dimensions; the tier's set is a greedy ALL-PAIRS cover
# (every pair of feature values occurs in at least one instance; thorough adds all triples of the first five dimensions).

DIMS = {
    "kind": ["dir", "sym", "dir-id", "sym-id"],
    "topo": ["lin", "same-atom", "branch", "ring", "side"],
    "units": ["one", "two", "two-w31", "two-w01", "two-w00"],
    "ends": ["none", "one", "two-w"],
    "start": ["prefix1", "prefixM", "prefixX", "endstart"],
    "tail": ["suffix", "suffixX", "object", "conn-object", "closed"],
    "tlist": ["none", "unit", "left"],
    "target": [0.5, 1.6, 2.4],
}


def _pairs_cover(dims, seed=0, strength2=True):
    import itertools as it
    import random

    names = list(dims)
    rnd = random.Random(1234 + seed)
    need = set()
    for a, b in it.combinations(range(len(names)), 2):
        for va in dims[names[a]]:
            for vb in dims[names[b]]:
                need.add((a, va, b, vb))
    rows = []
    while need:
        best, bestc = None, -1
        for _ in range(60):
            row = [rnd.choice(dims[n]) for n in names]
            # seed the candidate with one uncovered pair
            a, va, b, vb = rnd.choice(sorted(need, key=str)[:50])
            row[a], row[b] = va, vb
            c = sum(1 for (x, vx, y, vy) in need if row[x] == vx and row[y] == vy)
            if c > bestc:
                best, bestc = row, c
        rows.append(dict(zip(names, best)))
        need = {(x, vx, y, vy) for (x, vx, y, vy) in need if not (best[x] == vx and best[y] == vy)}
    return rows


def _build_feature_instance(f, idx):
    """assemble a molecule description from a feature vector (may be ill posed: the reference model then predicts the
    error mass and the implementation must agree)"""
    kind, topo = f["kind"], f["topo"]
    if kind == "dir":
        L, Rr, a, b = "[>]", "[<]", "[<]", "[>]"
    elif kind == "sym":
        L, Rr, a, b = "[$]", "[$]", "[$]", "[$]"
    elif kind == "dir-id":
        L, Rr, a, b = "[>1]", "[<1]", "[<1]", "[>1]"
    else:
        L, Rr, a, b = "[$2]", "[$2]", "[$2]", "[$2]"
    body = {"lin": ("CC", "CO"), "same-atom": ("C", "N"), "branch": ("CC", "CN"), "ring": ("C1CCC", "C1CC"), "side": ("CC(C#N)", "CC(Cl)")}[topo]

    def unit(core, wa=None, lst=None):
        A = a if wa is None else a[:-1] + f"|{wa}|]"
        B = b if lst is None else b[:-1] + f"|{lst}|]"
        if topo == "lin" or topo == "side":
            return f"{A}{core}{B}"
        if topo == "same-atom":
            return f"{A}{core}{B}"
        if topo == "branch":
            return f"{A}{core}({b}){B}"
        if topo == "ring":
            return f"{A}{core}({B})CC1" if core == "C1CCC" else f"{A}{core}({B})C1"
        raise ValueError(topo)

    ws = {"one": [None], "two": [None, None], "two-w31": ["3", "1"], "two-w01": ["0", "1"], "two-w00": ["0", "0"]}[f["units"]]
    nunit = len(ws)
    ndesc_unit = 3 if topo == "branch" else 2
    ends = []
    if f["ends"] != "none" or topo == "branch" or f["start"] == "endstart" or f["tail"] == "closed":
        # end groups that can close both descriptor classes
        if kind in ("sym", "sym-id"):
            ends = [f"{a}[H]"] + ([f"{a[:-1]}|2|]O"] if f["ends"] == "two-w" else [])
        else:
            ends = [f"{a}Cl", f"{b}N"] + ([f"{a[:-1]}|3|]Br"] if f["ends"] == "two-w" else [])
    ndesc = nunit * ndesc_unit + len(ends)
    lst_unit = None
    lst_left = None
    if f["tlist"] == "unit":
        # descriptor b of the first unit: go to descriptor a of the last unit, or (weight 1) to the first end group
        v = ["0"] * ndesc
        v[(nunit - 1) * ndesc_unit] = "2"
        if ends:
            v[nunit * ndesc_unit] = "1"
        lst_unit = " ".join(v)
    if f["tlist"] == "left":
        v = ["0"] * ndesc
        v[(nunit - 1) * ndesc_unit] = "1"
        lst_left = " ".join(v)
    units = [unit(body[i % 2], ws[i], lst_unit if i == 0 else None) for i in range(nunit)]
    m = max(token_ref(u).mass for u in units)
    tgt = f["target"]
    if topo == "branch" and kind in ("sym", "sym-id"):
        tgt = min(tgt, 1.6)  # every descriptor bonds with every other one: keep the choice tree enumerable
    dist = g0(round(tgt * m + 0.013, 3))
    start, tail = f["start"], f["tail"]
    left = "[]" if start == "endstart" else (L if lst_left is None else L[:-1] + f"|{lst_left}|]")
    right = "[]" if tail == "closed" else Rr
    els = []
    if start == "prefix1":
        els.append(tok("N"))
    elif start == "prefixM":
        els.append(tok("OCC"))
    elif start == "prefixX":
        els.append(tok("N" + L[:-1] + "|0|]"))
    els.append(sto(left, units, ends, right, dist))
    if tail == "suffix":
        els.append(tok("F"))
    elif tail == "suffixX":
        els.append(tok(Rr + "C(F)F"))
    elif tail in ("object", "conn-object"):
        if tail == "conn-object":
            els.append(tok("S"))
        u2 = f"{a}CS{b}"
        els.append(sto(L, [u2], [], Rr, g0(round(1.5 * token_ref(u2).mass, 3))))
        els.append(tok("F"))
    return Instance(f"fp{idx}|" + "|".join(str(f[k]) for k in DIMS), mol(*els), family="feature-product")


def feature_instances(tier, seed):
    rows = _pairs_cover(DIMS, seed if tier == "thorough" else 0)
    if tier == "thorough":
        rows += _pairs_cover(DIMS, seed + 1) + _pairs_cover(DIMS, seed + 2)
    out = []
    seen = set()
    for i, f in enumerate(rows):
        try:
            inst = _build_feature_instance(f, i)
        except Exception:  # noqa
            continue
        if inst.text in seen:
            continue
        seen.add(inst.text)
        out.append(inst)
    return out
