"""Stateless model checking of the real generation code.

For one bounded instance (a molecule description + a draw menu) every sequence of answers of the random
generator is enumerated (ScriptedGenerator + explore); the real `Molecule(...).generate(rng=...)` is
re-executed once per sequence.  Each execution is observed through public attributes only
(MolGen.mol / .graph / .weight / .fully_generated / .bond_descriptors) and judged by per-execution oracles
(C04 C05 C06 C07); the path probabilities are accumulated into the exact outcome distribution and compared
with the reference Markov chain (C08).
"""
import re

from rdkit import Chem

from . import refsem as R
from .common import HarnessError, run_limited
from .scripted import explore

_DIST_RE = re.compile(r"^\s*(\w+)\s*\(([^)]*)\)\s*$")


def parse_dist(text):
    m = _DIST_RE.match(text)
    if not m:
        raise R.RefError(f"distribution text {text!r}")
    return m.group(1), [float(x) for x in m.group(2).split(",")]


def token_sig(text):
    tr = R.token_ref(text)
    return (tr.plain_text(), tuple((round(d.weight, 9), None if d.transitions is None else tuple(round(x, 9) for x in d.transitions)) for d in tr.descs))


class Instance:
    def __init__(self, name, spec, menu=(0.5,), family=None, mirror=False, pre=None):
        self.name = name
        self.spec = spec
        self.menu = tuple(menu)
        self.family = family or name
        self.text = R.print_spec(spec)
        self.nspec = R.normalize(spec)
        self.mirror = bool(mirror)
        self.pre = pre  # observer calls made on the parsed object before it generates ("graphs")
        if self.mirror:
            # the object under test is Molecule(text).gen_mirror(): 'as if the elements had been written in reverse'
            els = []
            for e in reversed(self.nspec["elements"]):
                e = dict(e)
                if e["k"] == "sto":
                    e["left"], e["right"] = e["right"], e["left"]
                els.append(e)
            self.nspec = {"elements": els, "mixture": self.nspec.get("mixture")}
        self.tokens = {}  # normalised token text -> element index list
        self.el_of = {}
        self.kind_of = {}
        for ei, e in enumerate(self.nspec["elements"]):
            if e["k"] == "tok":
                self._reg(e["text"], ei, "tok")
            else:
                for t in e["rep"]:
                    self._reg(t, ei, "rep")
                for t in e["end"]:
                    self._reg(t, ei, "end")
        self.sig2text = {}
        for t in self.tokens:
            self.sig2text.setdefault(token_sig(t), t)
        self.labels = {t: i + 1 for i, t in enumerate(sorted(self.tokens))}
        self.stos = [(ei, e) for ei, e in enumerate(self.nspec["elements"]) if e["k"] == "sto"]

    def _reg(self, text, ei, kind):
        self.tokens.setdefault(text, []).append(ei)
        self.kind_of.setdefault(text, set()).add((ei, kind))

    def as_json(self):
        return {"name": self.name, "spec": self.spec, "menu": list(self.menu), "family": self.family, "mirror": self.mirror, "pre": self.pre}

    @staticmethod
    def from_json(d):
        return Instance(d["name"], d["spec"], d.get("menu", (0.5,)), d.get("family"), mirror=d.get("mirror", False), pre=d.get("pre"))

    def targets_from_points(self, points):
        """target mass of each stochastic object of one execution, computed from the declared law and the
        scripted generator's answers (reference reading of the parameters)."""
        draws = [p for p in points if p.kind != "choice"]
        out = []
        di = 0
        for ei, e in self.stos:
            fam, par = parse_dist(e["dist"])
            if fam == "gauss" and par[1] == 0:
                out.append(par[0])
                continue
            if di >= len(draws):
                out.append(None)  # execution ended before this object drew
                continue
            pt = draws[di]
            di += 1
            if fam == "uniform":
                if pt.kind != "uniform":
                    raise HarnessError(f"uniform law asked the generator for {pt.kind}")
                u = self.menu[pt.chosen]
                out.append(int(par[0]) + (int(par[1]) - int(par[0])) * u)
            elif fam == "gauss":
                from scipy.stats import norm

                out.append(par[0] + par[1] * float(norm.ppf(self.menu[pt.chosen])))
            else:
                out.append(None)  # other laws: the target is not reconstructed (documented full-size strings; structural oracles only)
        return out, len(draws)


class Obs:
    """public-observable facts about one returned MolGen"""

    def __init__(self):
        self.exc = None
        self.problems = []  # (oracle, code, text)
        self.blocks = []  # (token text (instance form) or None, offset, natoms, graph text)
        self.xbonds = []  # (resA, localA, resB, localB, order)
        self.canon = None
        self.smiles = None
        self.weight = None
        self.fully = None
        self.nopen = None
        self.open_descs = []


def observe(inst, mg):
    o = Obs()
    g = mg.graph
    n = g.number_of_nodes()
    if sorted(g.nodes()) != list(range(n)):
        o.problems.append(("C05", "graph-nodes", f"residue graph nodes are {sorted(g.nodes())[:6]}..."))
        return o
    try:
        mol = mg.mol
    except Exception as e:  # noqa
        o.problems.append(("C05", "sanitize", f"MolGen.mol raises {type(e).__name__}: {str(e)[:80]}"))
        return o
    o.fully = bool(mg.fully_generated)
    o.nopen = len(mg.bond_descriptors)
    off = 0
    atom_res = {}
    for i in range(n):
        gtxt = g.nodes[i].get("big_smiles")
        text = None
        nat = None
        try:
            text = inst.sig2text.get(token_sig(gtxt))
        except Exception:  # noqa
            text = None
        if text is None:
            o.problems.append(("C05", "foreign-residue", f"residue {i} is {gtxt!r}, not a token of the string"))
            return o
        nat = R.token_ref(text).natoms
        o.blocks.append((text, off, nat, gtxt))
        for k in range(nat):
            atom_res[off + k] = (i, k)
        off += nat
    if off != mol.GetNumAtoms():
        o.problems.append(("C05", "atom-count", f"molecule has {mol.GetNumAtoms()} atoms, its residues account for {off}"))
        return o
    # per-block identity and inter-residue bonds
    intra = [set() for _ in range(n)]
    for b in mol.GetBonds():
        i, j = b.GetBeginAtomIdx(), b.GetEndAtomIdx()
        (ra, la), (rb, lb) = atom_res[i], atom_res[j]
        order = R.BOND_ORDER.get(b.GetBondType(), b.GetBondTypeAsDouble())
        if ra == rb:
            intra[ra].add((min(la, lb), max(la, lb), order))
        else:
            if ra > rb:
                ra, la, rb, lb = rb, lb, ra, la
            o.xbonds.append((ra, la, rb, lb, order))
    for i, (text, boff, nat, gtxt) in enumerate(o.blocks):
        tr = R.token_ref(text)
        atoms = []
        pdb = set()
        for k in range(nat):
            a = mol.GetAtomWithIdx(boff + k)
            atoms.append((a.GetAtomicNum(), a.GetFormalCharge(), a.GetIsotope(), a.GetIsAromatic()))
            info = a.GetPDBResidueInfo()
            pdb.add(None if info is None else (info.GetResidueName(), info.GetResidueNumber()))
        if len(pdb) != 1 or None in pdb:
            o.problems.append(("C05", "pdb-residue-info", f"atoms of residue {i} ({text}) carry residue labels {sorted(map(str, pdb))}"))
        if atoms != tr.atoms:
            o.problems.append(("C05", "residue-atoms", f"residue {i} ({text}) has atoms {atoms}, token denotes {tr.atoms}"))
        if sorted(intra[i]) != tr.bonds:
            o.problems.append(("C05", "residue-bonds", f"residue {i} ({text}) has internal bonds {sorted(intra[i])}, token denotes {tr.bonds}"))
    # labelled canonical form
    lm = Chem.RWMol(mol)
    for idx, (r, k) in atom_res.items():
        a = lm.GetAtomWithIdx(idx)
        a.SetAtomMapNum(inst.labels[o.blocks[r][0]] * 100 + k + 1)
        if R.token_ref(o.blocks[r][0]).bracket[k]:
            R.forget_bracket_hydrogens(a)
    # open descriptors become dummy atoms (same encoding as the model)
    for bd in mg.bond_descriptors:
        try:
            at = int(bd.atom_bonding_to)
            r, k = atom_res[at]
            text = o.blocks[r][0]
            tr = R.token_ref(text)
            # which descriptor of that token: match by attachment atom and printed form, first unused
            plain = bd.generate_string(False)
            cands = [q for q, d in enumerate(tr.descs) if d.atom == k and d.plain() == plain]
            wm = [q for q in cands if abs(tr.descs[q].weight - float(bd.weight)) < 1e-9]
            cands = wm or cands
            used = [x for x in o.open_descs if x[0] == r]
            cands = [q for q in cands if (r, q) not in [(u[0], u[1]) for u in used]]
            if not cands:
                o.problems.append(("C04", "open-desc", f"open descriptor {plain} at atom {at} is not a descriptor of residue {r} ({text})"))
                continue
            q = cands[0]
            o.open_descs.append((r, q))
            d = lm.AddAtom(Chem.Atom(0))
            lm.GetAtomWithIdx(d).SetIsotope(1 + inst.labels[text] * 10 + tr.desc_class[q])
            bt = {1.0: Chem.BondType.SINGLE, 2.0: Chem.BondType.DOUBLE, 3.0: Chem.BondType.TRIPLE, 1.5: Chem.BondType.AROMATIC}[tr.descs[q].order]
            lm.AddBond(at, d, bt)
        except Exception as e:  # noqa
            o.problems.append(("C04", "open-desc", f"cannot interpret open descriptor: {type(e).__name__} {e}"))
    try:
        m2 = lm.GetMol()
        for a in m2.GetAtoms():
            a.SetMonomerInfo(None)
        Chem.SanitizeMol(m2)
        Chem.RemoveStereochemistry(m2)
        o.canon = Chem.MolToSmiles(m2)
    except Exception as e:  # noqa
        o.problems.append(("C05", "sanitize", f"labelled molecule does not sanitise: {e}"))
    try:
        o.smiles = mg.smiles
        o.weight = float(mg.weight)
    except Exception as e:  # noqa
        o.problems.append(("C05", "accessors", f"smiles/weight raise {type(e).__name__}"))
    # graph edges
    try:
        ge = sorted((min(a, b), max(a, b)) for a, b in g.edges())
        xe = sorted((a, b) for (a, _, b, _, _) in o.xbonds)
        if ge != xe:
            o.problems.append(("C05", "graph-edges", f"residue graph edges {ge} differ from the bonds between residues {xe}"))
        for (a, la, b, lb, order) in o.xbonds:
            if g.has_edge(a, b):
                bt = g.edges[a, b].get("bond_type")
                if R.BOND_ORDER.get(bt) != order:
                    o.problems.append(("C04", "graph-bondtype", f"graph edge {a}-{b} says {bt}, molecule bond order {order}"))
    except Exception as e:  # noqa
        o.problems.append(("C05", "graph-edges", f"{type(e).__name__} {e}"))
    return o


# --------------------------------------------------------------------------- per-execution oracles


def _match_bonds(inst, o):
    """C04: assign every inter-residue bond a pair of descriptors (one per end), injective per residue,
    compatible, with the prescribed bond order.  Returns (ok, usage) where usage[(res, desc)] = bond index."""
    bonds = o.xbonds
    cand = []
    for (a, la, b, lb, order) in bonds:
        ta, tb = R.token_ref(o.blocks[a][0]), R.token_ref(o.blocks[b][0])
        opts = []
        for i, da in enumerate(ta.descs):
            if da.atom != la or da.order != order:
                continue
            for j, db in enumerate(tb.descs):
                if db.atom != lb or db.order != order:
                    continue
                if R.compat(da, db):
                    opts.append(((a, i), (b, j)))
        cand.append(opts)
    used = {}
    openset = set(o.open_descs)

    def rec(k):
        if k == len(bonds):
            return True
        for (x, y) in cand[k]:
            if x in used or y in used or x in openset or y in openset:
                continue
            used[x] = k
            used[y] = k
            if rec(k + 1):
                return True
            del used[x]
            del used[y]
        return False

    order_idx = sorted(range(len(bonds)), key=lambda k: len(cand[k]))
    # simple reordering for speed: most constrained first
    bonds2 = [bonds[k] for k in order_idx]
    cand2 = [cand[k] for k in order_idx]
    bonds, cand = bonds2, cand2
    ok = rec(0)
    return ok, dict(used), [bonds[k] for k in range(len(bonds)) if not cand[k]]


def oracle_c04(inst, o):
    out = [p for p in o.problems if p[0] == "C04"]
    if not o.blocks:
        return out
    ok, used, impossible = _match_bonds(inst, o)
    if impossible:
        a, la, b, lb, order = impossible[0]
        out.append(("C04", "bond-without-descriptors", f"bond (order {order}) between atom {la} of {o.blocks[a][0]} and atom {lb} of {o.blocks[b][0]}: no pair of compatible descriptors with that order sits on these atoms"))
    elif not ok:
        out.append(("C04", "descriptor-reused", "no assignment of bonds to descriptors uses every descriptor at most once"))
    o.used = used if ok else None
    return out


def oracle_c05(inst, o):
    out = [p for p in o.problems if p[0] == "C05"]
    if not o.blocks or o.canon is None:
        return out
    n = len(o.blocks)
    pairs = [(a, b) for (a, _, b, _, _) in o.xbonds]
    if len(set(pairs)) != len(pairs):
        out.append(("C05", "double-bonded-pair", "two residues are joined by more than one bond"))
    # tree
    import networkx as nx

    T = nx.Graph()
    T.add_nodes_from(range(n))
    T.add_edges_from(pairs)
    if n and not nx.is_connected(T):
        out.append(("C05", "disconnected", f"{nx.number_connected_components(T)} disconnected pieces"))
    if len(set(pairs)) != n - 1:
        out.append(("C05", "not-a-tree", f"{n} residues joined by {len(set(pairs))} residue pairs"))
    # mass
    exp = sum(R.token_ref(b[0]).mass for b in o.blocks)
    if o.weight is not None and abs(o.weight - exp) > 1e-6:
        out.append(("C05", "mass", f"MolGen.weight {o.weight} differs from the sum of residue masses {exp}"))
    # hydrogen counts etc.: the molecule must be the one denoted by residues + bonds
    if o.used is not None:
        try:
            res = [b[0] for b in o.blocks]
            inv = {}
            for rd, k in o.used.items():
                inv.setdefault(k, []).append(rd)
            bonds = [tuple(v) for v in inv.values() if len(v) == 2]
            exp_canon = R.canon_of(res, bonds, [], inst.labels)
            if exp_canon != o.canon:
                out.append(("C05", "not-denoted-molecule", f"generated molecule {o.canon} is not the molecule its residues and bonds denote {exp_canon} (hydrogen count / valence / extra atoms)"))
            elif o.smiles is not None and not o.open_descs and not any(any(R.token_ref(b[0]).bracket) for b in o.blocks) and R.plain_smiles_of_labelled(exp_canon) != R.canon_plain(o.smiles):
                out.append(("C05", "smiles-accessor", f"MolGen.smiles {o.smiles} differs from the denoted molecule"))
        except R.RefError as e:
            out.append(("C05", "not-denoted-molecule", f"reference assembly fails: {e}"))
    return out


def oracle_c06(inst, o, well_posed):
    out = []
    if not well_posed:
        return out
    if o.exc is not None:
        out.append(("C06", "raises", f"well-posed molecule raises {o.exc}"))
        return out
    if not o.blocks:
        return out
    if not o.fully or o.nopen:
        out.append(("C06", "not-fully-generated", f"{o.nopen} descriptors still open"))
    # every descriptor used exactly once
    if getattr(o, "used", None) is not None:
        for r, (text, _, _, _) in enumerate(o.blocks):
            nd = len(R.token_ref(text).descs)
            nb = sum(1 for (a, _, b, _, _) in o.xbonds if a == r or b == r)
            if nb != nd:
                out.append(("C06", "descriptor-unused", f"residue {r} ({text}) has {nd} descriptors but {nb} bonds to other residues"))
                break
    # element order
    els = []
    amb = False
    for (text, _, _, _) in o.blocks:
        e = inst.tokens[text]
        if len(set(e)) != 1:
            amb = True
            break
        els.append(e[0])
    if amb:
        return out
    nel = len(inst.nspec["elements"])
    if els != sorted(els):
        out.append(("C06", "element-order", f"residues were created in element order {els}"))
    cnt = {}
    for e in els:
        cnt[e] = cnt.get(e, 0) + 1
    for ei, e in enumerate(inst.nspec["elements"]):
        if e["k"] == "tok" and cnt.get(ei, 0) != 1:
            out.append(("C06", "token-count", f"token element {ei} ({e['text']}) occurs {cnt.get(ei, 0)} times"))
        if e["k"] == "sto":
            nrep = sum(1 for (text, _, _, _), x in zip(o.blocks, els) if x == ei and text in e["rep"])
            if nrep < 1:
                out.append(("C06", "no-repeat-unit", f"stochastic object {ei} contributed no repeat unit"))
    between = {}
    for (a, la, b, lb, order) in o.xbonds:
        ea, eb = els[a], els[b]
        if ea != eb:
            between.setdefault((min(ea, eb), max(ea, eb)), []).append((a, la, b, lb))
    for (ea, eb), lst in between.items():
        if eb - ea != 1:
            out.append(("C06", "non-adjacent-bond", f"elements {ea} and {eb} are bonded"))
        elif len(lst) != 1:
            out.append(("C06", "multi-bond-elements", f"elements {ea} and {eb} are joined by {len(lst)} bonds"))
    for ei in range(nel - 1):
        if (ei, ei + 1) not in between:
            out.append(("C06", "elements-not-joined", f"elements {ei} and {ei + 1} are not bonded"))
    # junction descriptors match the terminals
    used = getattr(o, "used", None)
    if used is not None:
        for (ea, eb), lst in between.items():
            if eb - ea != 1 or len(lst) != 1:
                continue
            a, la, b, lb = lst[0]
            if els[a] > els[b]:
                a, la, b, lb = b, lb, a, la
            # descriptor on each side
            da = [rd for rd, k in used.items() if rd[0] == a and any(rd2[0] == b and k2 == k for rd2, k2 in used.items())]
            db = [rd for rd, k in used.items() if rd[0] == b and any(rd2[0] == a and k2 == k for rd2, k2 in used.items())]
            if not da or not db:
                continue
            dA = R.token_ref(o.blocks[a][0]).descs[da[0][1]]
            dB = R.token_ref(o.blocks[b][0]).descs[db[0][1]]
            eA, eB = inst.nspec["elements"][ea], inst.nspec["elements"][eb]
            def conj(d, t):
                # terminal descriptors are matched by symbol and id (the library cannot even read a bond order on a right terminal)
                return d.id == t.id and (d.symbol, t.symbol) in (("$", "$"), ("<", ">"), (">", "<"))

            if eA["k"] == "sto":
                Rt = R.terminal_ref(eA["right"])
                if not conj(dA, Rt):
                    out.append(("C06", "junction-terminal", f"element {ea} hands over through {dA.plain()}, its right terminal is {eA['right']}"))
            if eB["k"] == "sto":
                Lt = R.terminal_ref(eB["left"])
                if not conj(dB, Lt):
                    out.append(("C06", "junction-terminal", f"element {eb} is entered through {dB.plain()}, its left terminal is {eB['left']}"))
    # end groups are leaves
    for r, ((text, _, _, _), ei) in enumerate(zip(o.blocks, els)):
        e = inst.nspec["elements"][ei]
        if e["k"] == "sto" and text in e["end"] and text not in e["rep"]:
            nb = sum(1 for (a, _, b, _, _) in o.xbonds if a == r or b == r)
            if nb != 1:
                out.append(("C06", "end-group-not-leaf", f"end group {text} has {nb} bonds"))
    return out


def oracle_c07(inst, o, targets):
    """growth stops right after the first unit that makes the object's added mass exceed the target.

    The residues of an object appear in creation order: [start end group] growth units ... capping end groups.
    There must be a split g >= 1 such that the first g residues are growth units (repeat units; end groups only when a
    transition list can select them), everything after is a capping end group, the mass before the g-th unit did not
    exceed the target, and the mass after it does (or no descriptor was left open)."""
    out = []
    if o.exc is not None or not o.blocks:
        return out
    els = []
    for (text, _, _, _) in o.blocks:
        e = inst.tokens[text]
        if len(set(e)) != 1:
            return out
        els.append(e[0])
    for si, (ei, e) in enumerate(inst.stos):
        t = targets[si]
        if t is None:
            continue
        has_trans = any(d.transitions is not None for tt in e["rep"] + e["end"] for d in R.token_ref(tt).descs) or R.terminal_ref(e["left"]).transitions is not None
        idx = [k for k, x in enumerate(els) if x == ei]
        if not idx:
            out.append(("C07", "no-unit", f"object {ei} added no unit for target {t}"))
            continue
        if R.terminal_ref(e["left"]).symbol == "" and idx[0] == 0:
            idx = idx[1:]  # the starting end group does not count
        texts = [o.blocks[k][0] for k in idx]
        masses = [R.token_ref(x).mass for x in texts]
        n = len(idx)
        if n < 1 or not any(x in e["rep"] for x in texts):
            out.append(("C07", "no-unit", f"object {ei} added no repeat unit for target {t}"))
            continue
        cum = [0.0]
        for m in masses:
            cum.append(cum[-1] + m)

        def open_after(g):
            last = idx[g - 1]
            ndesc = sum(len(R.token_ref(o.blocks[k][0]).descs) for k in range(last + 1))
            nb = sum(1 for (a, _, b, _, _) in o.xbonds if a <= last and b <= last)
            return ndesc - 2 * nb

        verdicts = []
        ok = False
        for g in range(1, n + 1):
            if not all(x in e["end"] and x not in e["rep"] for x in texts[g:]):
                continue
            if not has_trans and not all(x in e["rep"] for x in texts[:g]):
                continue
            cont_ok = g == 1 or cum[g - 1] <= t + 1e-9
            stop_ok = cum[g] > t - 1e-9 or open_after(g) == 0
            if cont_ok and stop_ok:
                ok = True
                break
            verdicts.append("grew-past-target" if not cont_ok else "stopped-early")
        if not ok:
            code = verdicts[-1] if verdicts else "growth-after-capping"
            out.append(("C07", code, f"object {ei}: units {texts} with cumulative masses {[round(c, 3) for c in cum[1:]]} cannot be explained by growth up to the first unit exceeding the target {t:.4f}"))
    return out


# --------------------------------------------------------------------------- exploration of one instance


def run_instance(inst, max_exec=200000, bound=None, want=("C04", "C05", "C06", "C07", "C08"), well_posed=None, model=True, reuse=False, max_seconds=None):
    """reuse=True: the molecule is parsed ONCE and the same object generates every execution (state kept between
    generations of one object then shows up in the per-execution oracles and in the outcome distribution)"""
    import gbigsmiles

    text = inst.text
    shown = inst.text + (" [the object returned by gen_mirror() of this string]" if inst.mirror else "") + (" [after str(), gen_reaction_graph() x2, gen_stochastic_atom_graph() on the same object]" if inst.pre == "graphs" else "")
    stats = {"execs": 0, "points": 0, "exceptions": 0, "outcomes": 0, "model_states": 0, "model_transitions": 0, "capped": False, "maxdepth": 0}
    viols = {}  # key -> (what, script)
    dist = {}  # (targets tuple, canon) -> prob
    exc_mass = {}
    pvec_bad = []
    ndraws_seen = set()

    def build():
        m = gbigsmiles.Molecule(text)
        if inst.mirror:
            m = m.gen_mirror()
            if m is None:
                raise ValueError("gen_mirror() returns None")
        if inst.pre == "graphs":
            # observers first: printing and both graph builders (twice) - they must leave the object as it was
            for f in (lambda: str(m), m.gen_reaction_graph, m.gen_reaction_graph, lambda: m.gen_stochastic_atom_graph(expect_schulz_zimm_distribution=False), lambda: m.generate_string(False)):
                try:
                    f()
                except Exception:  # noqa
                    pass
        return m

    shared = [build()] if reuse else None

    def run(rng):
        try:
            mol = shared[0] if reuse else build()
        except Exception as e:  # noqa
            return ("exc", f"{type(e).__name__}: {str(e)[:100]}")
        # one execution of a bounded instance takes milliseconds; 60 s or 20000 generator requests = does not terminate
        st, out = run_limited(lambda: mol.generate(rng=rng), (), 60)
        if st == "ok":
            return ("ok", out)
        if st in ("timeout", "memory"):
            return ("exc", f"NonTermination: generate() {st} (no result after 60 s / 20000 generator requests)")
        if out.startswith("HarnessError"):
            raise HarnessError(out)
        return ("exc", out.replace("(", ": ", 1)[:-1][:120] if out.endswith(")") else out[:120])

    # model first (it also tells whether the instance is well posed)
    model_out = {}
    model_err = {}
    mstats = {}

    def model_for(targets):
        key = tuple(targets)
        if key in model_out:
            return model_out[key], model_err[key]
        gm = R.GenModel(inst.nspec, targets)
        try:
            out = gm.run()
        except R.ModelError as e:
            out = None
        model_out[key] = None if out is None else {c: p for c, (p, st) in out.items()}
        model_err[key] = gm
        stats["model_states"] += gm.states
        stats["model_transitions"] += gm.transitions
        return model_out[key], gm

    import time as _time

    t_start = _time.time()
    timed_out = False
    history_dependent = False
    for rng, (status, payload) in explore(run, bound=bound, max_exec=max_exec, menu=inst.menu, divergence="yield" if reuse else "raise"):
        if max_seconds is not None and _time.time() - t_start > max_seconds:
            timed_out = True  # budget of this instance used up: reported as capped (not exhaustive), never as a verdict
            break
        if rng.diverged:
            # one parsed object generates every execution: given the answers of an earlier execution it now asks other
            # questions - its decisions are not a function of the notation and the answers alone
            history_dependent = True
            if "C08" in want:
                viols.setdefault(f"C08|decisions-depend-on-earlier-generations-of-the-object|{inst.family}", (f"{shown}: the SAME parsed object generating again: after the answers {rng.script} (which an earlier generation of this object had received up to the last one) it asks {len(rng.points)} question(s) instead of at least {len(rng.script)}: the decisions offered depend on the object's earlier generations", list(rng.script)))
            # the execution itself is complete (default answers after the point of divergence): the per-execution oracles apply
        stats["execs"] += 1
        stats["points"] += len(rng.points)
        stats["maxdepth"] = max(stats["maxdepth"], len(rng.points))
        targets, nd = inst.targets_from_points(rng.points)
        ndraws_seen.add(nd)
        pp = rng.path_prob
        script = rng.choices
        for pt in rng.points:
            if pt.kind == "choice":
                pf = pt.info["p_full"]
                if min(pf) < 0 or abs(sum(pf) - 1) > 1e-9:
                    viols.setdefault(f"C08|bad-p-vector|{inst.family}", (f"{shown}: probability vector {pf} handed to the generator", script))
        if status == "exc":
            stats["exceptions"] += 1
            o = Obs()
            o.exc = payload
            exc_mass[tuple(targets)] = exc_mass.get(tuple(targets), 0.0) + pp
            tkey = tuple(x for x in targets)
            dist[(tkey, "EXC")] = dist.get((tkey, "EXC"), 0.0) + pp
        else:
            o = observe(inst, payload)
            tkey = tuple(targets)
            dist[(tkey, o.canon)] = dist.get((tkey, o.canon), 0.0) + pp
        o.used = None
        wp = well_posed
        if wp is None and None not in targets:
            mo, gm = model_for(targets)
            # well posed = the model proves no stuck path and every outcome has closed outer ends
            wp = mo is not None and gm.err == 0 and not gm.capped and all("*" not in c for c in mo)
        per = []
        if "C04" in want or "C05" in want or "C06" in want:
            per += oracle_c04(inst, o)
        if "C05" in want:
            per += oracle_c05(inst, o)
            if o.exc is not None and wp and any(k in o.exc for k in ("Valence", "valence", "Kekul", "Sanit", "Range Error", "Invariant", "Pre-condition", "ArgumentError")):
                per.append(("C05", "sanitize-raises", f"generation of a well-posed molecule fails inside the chemistry toolkit: {o.exc}"))
        if "C06" in want:
            per += oracle_c06(inst, o, bool(wp))
        if "C07" in want:
            per += oracle_c07(inst, o, targets)
        for (prop, code, what) in per:
            if prop in want:
                viols.setdefault(f"{prop}|{code}|{inst.family}", (f"{shown}: {what}", script))
    stats["capped"] = bool(explore.capped) or timed_out or history_dependent
    # what is fully covered below a cap: every execution with at most this many deviations from the default answers
    stats["completed_deviation_bound"] = (explore.current_bound - 1) if timed_out else explore.completed_bound if explore.capped else None
    stats["outcomes"] = len(dist)
    stats["draw_counts"] = sorted(ndraws_seen)

    # C08: outcome distribution vs model
    if "C08" in want and model and not stats["capped"] and bound is None:
        tkeys = sorted({k[0] for k in dist}, key=str)
        nmenu = len(inst.menu)
        for tk in tkeys:
            if None in tk:
                continue
            mo, gm = model_for(tk)
            if mo is None or gm.boundary:
                continue
            ndraw = sum(1 for (_, e) in inst.stos if not (parse_dist(e["dist"])[0] == "gauss" and parse_dist(e["dist"])[1][1] == 0))
            scale = (1.0 / nmenu) ** ndraw
            impl = {k[1]: v / scale for k, v in dist.items() if k[0] == tk}
            tot = sum(impl.values())
            if abs(tot - 1.0) > 1e-9:
                viols.setdefault(f"C08|mass-not-one|{inst.family}", (f"{shown} targets {tk}: path probabilities sum to {tot}", []))
            exp = dict(mo)
            if gm.err > 0:
                exp["EXC"] = exp.get("EXC", 0.0) + gm.err
            for c in sorted(set(impl) | set(exp), key=str):
                a, b = impl.get(c, 0.0), exp.get(c, 0.0)
                if abs(a - b) > 1e-9:
                    kind = "missing-outcome" if a == 0 else "extra-outcome" if b == 0 else "wrong-probability"
                    viols.setdefault(
                        f"C08|{kind}|{inst.family}",
                        (f"{shown} targets {tk}: outcome {c if c == 'EXC' or c is None else R.plain_smiles_of_labelled(c)} [{c}] has probability {a:.9f} in the implementation, {b:.9f} from the notation", []),
                    )
                    break
    return stats, viols, dist


def replay_script(inst, script, want=("C04", "C05", "C06", "C07")):
    """re-run ONE execution (a recorded choice sequence) on the real generator with a plain replaying generator - no
    explorer - and judge it with the per-execution oracles; returns (observation summary, [(property, code, text)])"""
    import gbigsmiles

    from .scripted import ScriptedGenerator

    rng = ScriptedGenerator(script, menu=inst.menu)
    try:
        mol_ = gbigsmiles.Molecule(inst.text)
        if inst.mirror:
            mol_ = mol_.gen_mirror()
        if inst.pre == "graphs":
            for f in (lambda: str(mol_), mol_.gen_reaction_graph, mol_.gen_reaction_graph, lambda: mol_.gen_stochastic_atom_graph(expect_schulz_zimm_distribution=False), lambda: mol_.generate_string(False)):
                try:
                    f()
                except Exception:  # noqa
                    pass
        mg = mol_.generate(rng=rng)
        o = observe(inst, mg)
    except HarnessError:
        raise
    except Exception as e:  # noqa
        o = Obs()
        o.exc = f"{type(e).__name__}: {str(e)[:100]}"
    o.used = None
    targets, nd = inst.targets_from_points(rng.points)
    wp = False
    if None not in targets:
        gm = R.GenModel(inst.nspec, targets)
        try:
            mo = gm.run()
            wp = gm.err == 0 and not gm.capped and all("*" not in c for c in mo)
        except R.ModelError:
            wp = False
    per = oracle_c04(inst, o) + oracle_c05(inst, o) + oracle_c06(inst, o, wp) + oracle_c07(inst, o, targets)
    summary = {"text": inst.text, "script": list(script), "trace": [p.as_json() for p in rng.points], "exception": o.exc, "smiles": o.smiles, "canonical": o.canon, "targets": targets, "well_posed": wp}
    return summary, [x for x in per if x[0] in want]
