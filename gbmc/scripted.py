"""Scripted random generator: every request the library makes to its random generator becomes an
explicit choice point.  A script is a list of alternative indices; after the script is exhausted the
generator answers alternative 0 at every further point (the 'default answer').

Choice points
  choice(a, p=...)   alternatives = entries with p > 0 (in order); probability = p[i]
  draw requests      uniform()/random() -> menu of quantiles; standard_normal()/normal()/poisson() ->
                     menu of reference quantiles of the requested law; probability = 1/len(menu)
                     (a model discretisation, only used where stated)
Any other method raises HarnessError: an unknown request must not silently fall back to real
randomness.
"""
import numpy as np

from .common import HarnessError, RunawayExecution

MAX_POINTS = 20000  # answers per execution; bounded instances need a few hundred at most


class Point:
    __slots__ = ("kind", "n", "probs", "chosen", "answer", "info")

    def __init__(self, kind, n, probs, chosen, answer, info=None):
        self.kind = kind
        self.n = n
        self.probs = probs
        self.chosen = chosen
        self.answer = answer
        self.info = info

    def as_json(self):
        return {
            "kind": self.kind,
            "n": self.n,
            "p": [round(float(x), 12) for x in self.probs],
            "chosen": self.chosen,
            "answer": self.answer if isinstance(self.answer, (int, float, str)) else str(self.answer),
            "info": self.info,
        }


class BadChoiceVector(ValueError):
    """What numpy's Generator.choice would raise for this p (ValueError) - the library sees it."""


class ScriptedGenerator(np.random.Generator):
    def __init__(self, script=(), menu=(0.5,), strict_len=False):
        super().__init__(np.random.PCG64(12345))
        self.script = list(script)
        self.menu = tuple(menu)
        self.points = []
        self.pos = 0
        self.strict_len = strict_len
        self.diverged = False

    # ---- bookkeeping
    def _take(self, n, kind):
        if self.pos >= MAX_POINTS:
            raise RunawayExecution(f"{self.pos} requests to the random generator in one execution")
        if self.pos < len(self.script):
            c = self.script[self.pos]
            if not (0 <= c < n):
                raise HarnessError(
                    f"replay divergence: script index {c} out of range {n} at point {self.pos} ({kind})"
                )
        else:
            c = 0
        self.pos += 1
        return c

    @property
    def choices(self):
        return [p.chosen for p in self.points]

    @property
    def path_prob(self):
        pr = 1.0
        for p in self.points:
            pr *= p.probs[p.chosen]
        return pr

    # ---- choice
    def choice(self, a, size=None, replace=True, p=None, axis=0, shuffle=True):
        if size is not None and size != ():
            # a batch of picks is the same number of single picks made one after the other (with replacement)
            if not replace:
                raise HarnessError("choice without replacement requested")
            n_ = int(np.prod(size))
            return np.array([self.choice(a, p=p) for _ in range(n_)]).reshape(size)
        if isinstance(a, (int, np.integer)):
            arr = np.arange(int(a))
        else:
            arr = np.asarray(list(a) if isinstance(a, range) else a)
        n = len(arr)
        if n == 0:
            # numpy: ValueError("a cannot be empty unless no samples are taken")
            raise ValueError("a cannot be empty unless no samples are taken")
        if p is None:
            pv = np.full(n, 1.0 / n)
        else:
            pv = np.asarray(p, dtype=float)
            if pv.shape != (n,):
                raise ValueError("a and p must have same size")
            if np.any(np.isnan(pv)):
                raise ValueError("probabilities contain NaN")
            if np.any(pv < 0):
                raise ValueError("probabilities are not non-negative")
            if abs(pv.sum() - 1.0) > 1e-8:
                raise ValueError("probabilities do not sum to 1")
        alts = [i for i in range(n) if pv[i] > 0]
        c = self._take(len(alts), "choice")
        idx = alts[c]
        self.points.append(
            Point("choice", len(alts), [float(pv[i]) for i in alts], c, int(idx), {"p_full": [float(x) for x in pv]})
        )
        return arr[idx]

    # ---- draws
    def _draw(self, kind, values, info):
        n = len(values)
        c = self._take(n, kind)
        self.points.append(Point(kind, n, [1.0 / n] * n, c, float(values[c]), info))
        return values[c]

    def _shape(self, v, size):
        if size is None or size == ():
            return np.float64(v) if size is None else np.asarray(v, dtype=float).reshape(())
        arr = np.empty(size, dtype=float)
        if arr.size != 1:
            raise HarnessError(f"vector draw of size {size} requested")
        arr.fill(v)
        return arr

    def uniform(self, low=0.0, high=1.0, size=None):
        u = self._draw("uniform", list(self.menu), {"low": float(low), "high": float(high)})
        return self._shape(low + (high - low) * u, size)

    def random(self, size=None, dtype=np.float64, out=None):
        u = self._draw("uniform", list(self.menu), {"low": 0.0, "high": 1.0})
        return self._shape(u, size)

    def standard_normal(self, size=None, dtype=np.float64, out=None):
        from scipy.stats import norm

        vals = [float(norm.ppf(u)) for u in self.menu]
        z = self._draw("standard_normal", vals, {})
        return self._shape(z, size)

    def normal(self, loc=0.0, scale=1.0, size=None):
        from scipy.stats import norm

        vals = [float(loc + scale * norm.ppf(u)) for u in self.menu]
        z = self._draw("normal", vals, {"loc": float(loc), "scale": float(scale)})
        return self._shape(z, size)

    def poisson(self, lam=1.0, size=None):
        from scipy.stats import poisson

        lam_f = float(np.asarray(lam).reshape(-1)[0])
        vals = [float(poisson.ppf(u, lam_f)) for u in self.menu]
        z = self._draw("poisson", vals, {"lam": lam_f})
        if size is None:
            return int(z)
        arr = np.empty(size, dtype=np.int64)
        arr.fill(int(z))
        return arr

    def integers(self, low, high=None, size=None, dtype=np.int64, endpoint=False):
        """a uniform pick among integers: one choice point with equal probabilities"""
        if high is None:
            low, high = 0, low
        hi = int(high) + (1 if endpoint else 0)
        vals = np.arange(int(low), hi)
        if len(vals) > 64:
            raise HarnessError(f"integers over {len(vals)} values requested")
        if size is None or size == ():
            return int(self.choice(vals))
        return self.choice(vals, size=size).astype(dtype)

    # ---- everything else is an unknown request
    def _unknown(self, name):
        def f(*a, **k):
            raise HarnessError(f"unscripted random request: Generator.{name}")

        return f

    def __getattribute__(self, name):
        if name in _FORBIDDEN:
            return object.__getattribute__(self, "_unknown")(name)
        return object.__getattribute__(self, name)


_FORBIDDEN = {
    "bytes", "shuffle", "permutation", "permuted", "beta", "binomial", "chisquare", "dirichlet",
    "exponential", "f", "gamma", "geometric", "gumbel", "hypergeometric", "laplace", "logistic", "lognormal",
    "logseries", "multinomial", "multivariate_hypergeometric", "multivariate_normal", "negative_binomial",
    "noncentral_chisquare", "noncentral_f", "pareto", "power", "rayleigh", "standard_cauchy",
    "standard_exponential", "standard_gamma", "standard_t", "triangular", "vonmises", "wald", "weibull", "zipf",
}


def explore(run, bound=None, max_exec=None, menu=(0.5,), divergence="raise"):
    """Stateless exploration of the choice tree of `run`, in order of the number of DEVIATIONS from the default answer
    (alternative 0): first the execution without deviation, then all with one, then all with two ... (iterative
    deviation bounding; within one deviation count depth first).  Every execution runs to completion.

    run(rng) -> observation (any).  Yields (rng, observation) for every complete execution.
    bound: maximal number of deviations (None = unbounded = exhaustive).
    When max_exec is hit, explore.capped is set and explore.completed_bound is the largest deviation count whose
    executions were ALL covered (what is fully covered below the cap); it is None after an exhaustive exploration.
    """
    buckets = {0: [[]]}
    n = 0
    capped = False
    completed = None
    while True:
        for k in [k for k, v in buckets.items() if not v]:
            del buckets[k]
        if not buckets:
            break
        d = min(buckets)  # children only ever go to d + 1, so d never decreases
        explore.current_bound = d
        prefix = buckets[d].pop()
        rng = ScriptedGenerator(prefix, menu=menu)
        obs = run(rng)
        if rng.pos < len(prefix):
            # the same answers did not lead to the same questions.  With fresh objects per execution that is nondeterminism
            # the harness does not own (hard error).  Where the caller deliberately shares an object between executions
            # (divergence="yield") it is an observation: the object's behaviour depends on its earlier use.
            if divergence != "yield":
                raise HarnessError(
                    f"replay divergence: execution consumed {rng.pos} points, prefix has {len(prefix)}"
                )
            rng.diverged = True
            n += 1
            yield rng, obs
            continue
        n += 1
        yield rng, obs
        ch = rng.choices
        if bound is None or d + 1 <= bound:
            nxt = buckets.setdefault(d + 1, [])
            # children: deviate at any point after the prefix (each child has exactly one more deviation)
            for i in range(len(ch) - 1, len(prefix) - 1, -1):
                for alt in range(rng.points[i].n - 1, 0, -1):
                    nxt.append(ch[:i] + [alt])
        if max_exec is not None and n >= max_exec:
            capped = any(buckets.values())
            if capped:
                completed = d - 1 if buckets.get(d) else d
                break
    explore.capped = capped
    explore.completed_bound = completed if capped else None


explore.capped = False
explore.completed_bound = None
explore.current_bound = 0
