#!/usr/bin/env python3
"""Mutation analysis of the checks themselves: systematic single-point mutants of the library source (comparison /
arithmetic / boolean operator swaps, constant tweaks, statement deletions) are applied one at a time to a scratch copy of
the sources and the checks relevant for the mutated file are run against it (GBMC_REPO, fast case subsets).  A mutant is
'killed' by the first check that exits 1; 'survived' if all relevant checks exit 0 (equivalent mutant or a gap - to be
inspected); 'stillborn' if the library no longer imports; 'harness' if a check exits 2.
usage: mutation_sweep.py [--files a.py,b.py] [--every N] [--jobs J] [--out results.jsonl] [--full-on-survivor]
"""
import ast
import copy
import json
import os
import shutil
import subprocess
import sys
import tempfile
from concurrent.futures import ThreadPoolExecutor

SRC = "/repo/src/gbigsmiles"
CHECKS = {
    "core.py": ["C03", "C02", "C12", "C08", "C16"],
    "bond.py": ["C03", "C02", "C01", "C15", "C08"],
    "atom.py": ["C02", "C15"],
    "token.py": ["C02", "C01", "C15", "C05", "C08"],
    "stochastic.py": ["C08", "C07", "C06", "C02", "C15", "C10", "C09"],
    "molecule.py": ["C02", "C01", "C16", "C15", "C08", "C10"],
    "mol_gen.py": ["C05", "C04", "C20", "C08", "C10"],
    "system.py": ["C12", "C13", "C14", "C15", "C01"],
    "mixture.py": ["C12", "C01", "C15", "C13"],
    "distribution.py": ["C11", "C09", "C19", "C02"],
    "stochastic_atom_graph.py": ["C17", "C18"],
    "graph_generate.py": ["C18"],
    "mol_prob.py": ["C19"],
    "forcefield_helper.py": ["C20"],
}
SWAP_CMP = {ast.Lt: ast.LtE, ast.LtE: ast.Lt, ast.Gt: ast.GtE, ast.GtE: ast.Gt, ast.Eq: ast.NotEq, ast.NotEq: ast.Eq, ast.Is: ast.IsNot, ast.IsNot: ast.Is, ast.In: ast.NotIn, ast.NotIn: ast.In}
SWAP_BIN = {ast.Add: ast.Sub, ast.Sub: ast.Add, ast.Mult: ast.Div, ast.Div: ast.Mult}


def mutants_of(path):
    src = open(path).read()
    tree = ast.parse(src)
    out = []
    nodes = list(ast.walk(tree))

    def emit(desc, node, mutate, restore):
        mutate()
        try:
            new = ast.unparse(tree)
            out.append((getattr(node, "lineno", 0), desc, new))
        except Exception:  # noqa
            pass
        restore()

    for node in nodes:
        if isinstance(node, ast.Compare):
            for i, op in enumerate(node.ops):
                if type(op) in SWAP_CMP:
                    old = node.ops[i]
                    emit(f"{type(op).__name__}->{SWAP_CMP[type(op)].__name__}", node, lambda: node.ops.__setitem__(i, SWAP_CMP[type(old)]()), lambda: node.ops.__setitem__(i, old))
        elif isinstance(node, ast.BinOp) and type(node.op) in SWAP_BIN:
            old = node.op
            emit(f"{type(old).__name__}->{SWAP_BIN[type(old)].__name__}", node, lambda: setattr(node, "op", SWAP_BIN[type(old)]()), lambda: setattr(node, "op", old))
        elif isinstance(node, ast.AugAssign) and type(node.op) in SWAP_BIN:
            old = node.op
            emit(f"aug {type(old).__name__}->{SWAP_BIN[type(old)].__name__}", node, lambda: setattr(node, "op", SWAP_BIN[type(old)]()), lambda: setattr(node, "op", old))
        elif isinstance(node, ast.BoolOp):
            old = node.op
            new = ast.Or() if isinstance(old, ast.And) else ast.And()
            emit(f"{type(old).__name__}->{type(new).__name__}", node, lambda: setattr(node, "op", new), lambda: setattr(node, "op", old))
        elif isinstance(node, ast.UnaryOp) and isinstance(node.op, ast.Not):
            # not x -> x  (replace operand trick: wrap in double not is not possible; use bool(x))
            oldop = node.op
            emit("not removed", node, lambda: setattr(node, "op", ast.UAdd()) if False else setattr(node, "op", ast.Not()) or None, lambda: setattr(node, "op", oldop))
        elif isinstance(node, ast.Constant) and isinstance(node.value, (int, float)) and not isinstance(node.value, bool):
            old = node.value
            for nv in ({0: 1, 1: 0}.get(old, old + 1),):
                emit(f"const {old!r}->{nv!r}", node, lambda: setattr(node, "value", nv), lambda: setattr(node, "value", old))
        elif isinstance(node, ast.Constant) and isinstance(node.value, bool):
            old = node.value
            emit(f"const {old}->{not old}", node, lambda: setattr(node, "value", not old), lambda: setattr(node, "value", old))
    # statement deletions
    for parent in nodes:
        for field in ("body", "orelse"):
            body = getattr(parent, field, None)
            if not isinstance(body, list):
                continue
            for i, st in enumerate(list(body)):
                if isinstance(st, (ast.Assign, ast.AugAssign, ast.Expr, ast.Raise, ast.Return, ast.Delete, ast.Continue, ast.Break)):
                    if isinstance(st, ast.Expr) and isinstance(st.value, ast.Constant) and isinstance(st.value.value, str):
                        continue  # docstring
                    old = body[i]
                    emit(f"delete {type(st).__name__}", st, lambda: body.__setitem__(i, ast.Pass()), lambda: body.__setitem__(i, old))
    # drop the broken 'not removed' emitter results (they are identical to the original)
    uniq = []
    seen = {ast.unparse(ast.parse(src))}
    for ln, desc, new in out:
        if new in seen:
            continue
        seen.add(new)
        uniq.append((ln, desc, new))
    return uniq


def run_mutant(job):
    fname, lineno, desc, new_src, fast, full_on_survivor = job
    root = tempfile.mkdtemp(prefix="gbmc_ms_", dir="/tmp")
    res = {"file": fname, "line": lineno, "mutation": desc}
    try:
        shutil.copytree("/repo/src", os.path.join(root, "src"))
        for x in ("README.md", "SI.md", "tests"):
            os.symlink(os.path.join("/repo", x), os.path.join(root, x))
        with open(os.path.join(root, "src", "gbigsmiles", fname), "w") as fh:
            fh.write(new_src)
        env = dict(os.environ, GBMC_REPO=root, GBMC_OUT=os.path.join(root, "out"), GBMC_NPROC="4", PYTHONPATH="/verif")
        if fast:
            env["GBMC_FAST"] = "1"
        r = subprocess.run(["/venv/bin/python", "-c", "import sys; sys.path.insert(0, sys.argv[1]); import gbigsmiles", os.path.join(root, "src")], env=env, stdout=subprocess.PIPE, stderr=subprocess.STDOUT, text=True, timeout=120)
        if r.returncode != 0:
            res["verdict"] = "stillborn"
            return res
        res["verdict"] = "survived"
        res["ran"] = []
        for pid in CHECKS[fname]:
            try:
                r = subprocess.run(["/verif/check", pid, "quick"], env=env, stdout=subprocess.PIPE, stderr=subprocess.STDOUT, text=True, timeout=1500)
                rc = r.returncode
            except subprocess.TimeoutExpired:
                rc = 124
            res["ran"].append([pid, rc])
            if rc == 1:
                res["verdict"] = "killed"
                res["by"] = pid
                v = [l for l in r.stdout.splitlines() if l.strip().startswith("what=")]
                res["what"] = v[0].strip()[:200] if v else ""
                break
            if rc not in (0, 1):
                res["verdict"] = "harness"
                res["by"] = pid
                res["what"] = r.stdout[-300:] if rc != 124 else "timeout"
                break
        if res["verdict"] == "survived" and fast and full_on_survivor:
            env.pop("GBMC_FAST", None)
            for pid in CHECKS[fname]:
                r = subprocess.run(["/verif/check", pid, "quick"], env=env, stdout=subprocess.PIPE, stderr=subprocess.STDOUT, text=True, timeout=3000)
                if r.returncode == 1:
                    res["verdict"] = "killed"
                    res["by"] = pid + " (full quick)"
                    break
        return res
    except Exception as e:  # noqa
        res["verdict"] = "sweep-error"
        res["what"] = repr(e)[:200]
        return res
    finally:
        shutil.rmtree(root, ignore_errors=True)


def main():
    args = sys.argv[1:]
    files = None
    every = 1
    jobs = 4
    out = "/verif/mutation/results.jsonl"
    full = "--full-on-survivor" in args
    for i, a in enumerate(args):
        if a == "--files":
            files = args[i + 1].split(",")
        if a == "--every":
            every = int(args[i + 1])
        if a == "--jobs":
            jobs = int(args[i + 1])
        if a == "--out":
            out = args[i + 1]
    os.makedirs(os.path.dirname(out), exist_ok=True)
    todo = []
    for fname in files or list(CHECKS):
        ms = mutants_of(os.path.join(SRC, fname))
        for k, (ln, desc, new) in enumerate(ms):
            if k % every == 0:
                todo.append((fname, ln, desc, new, True, full))
    done = set()
    if os.path.exists(out):
        for l in open(out):
            try:
                d = json.loads(l)
                done.add((d["file"], d["line"], d["mutation"]))
            except Exception:  # noqa
                pass
    todo = [t for t in todo if (t[0], t[1], t[2]) not in done]
    print(f"{len(todo)} mutants to run, {len(done)} already done", flush=True)
    with ThreadPoolExecutor(jobs) as ex, open(out, "a") as fh:
        for res in ex.map(run_mutant, todo):
            fh.write(json.dumps(res) + "\n")
            fh.flush()
            print(res["file"], res["line"], res["mutation"], res["verdict"], res.get("by", ""), flush=True)


if __name__ == "__main__":
    main()
