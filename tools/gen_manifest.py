#!/usr/bin/env python3
"""Regenerate MANIFEST.json from tools/manifest_src.json (claimed checks) + properties.jsonl."""
import json, os
V = os.path.dirname(os.path.dirname(os.path.abspath(__file__)))
src = json.load(open(os.path.join(V, "tools", "manifest_src.json")))
props = [json.loads(l) for l in open(os.path.join(V, "properties.jsonl"))]
checks = []
na = []
for p in props:
    pid = p["id"]
    c = src["checks"].get(pid)
    if c is None:
        na.append({"property_id": pid, "reason": src["not_applicable"].get(pid, "check not built yet in this session (model-checking design in DESIGN.md section 3)")})
        continue
    checks.append({
        "property_id": pid,
        "quick_cmd": f"./check {pid} quick",
        "thorough_cmd": f"./check {pid} thorough",
        "evidence_file": f"/verif/evidence/{pid}.json",
        "replay_cmd_template": f"./check {pid} --replay {{path}}",
        "engine": c.get("engine", "gbmc"),
        "level_claimed": {"category": "model_checking", "text": c["text"], "design_ref": c.get("design_ref", f"DESIGN.md section 3 {pid}")},
        "level_note": c["note"],
        "technique": c["technique"],
    })
man = {
    "version": 1,
    "setup_cmd": "true",
    "hooks": src["hooks"],
    "engines": src["engines"],
    "checks": checks,
    "notes": src["notes"],
    "not_applicable": na,
}
json.dump(man, open(os.path.join(V, "MANIFEST.json"), "w"), indent=1)
print("checks:", [c["property_id"] for c in checks], "na:", [n["property_id"] for n in na])
