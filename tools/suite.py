#!/usr/bin/env python3
"""Run the repository's own test suite (in parallel, for speed) on a tree and compare the set of
passing tests with the pinned baseline (/root/.vp/BASELINE.json stable_pass).
usage: suite.py [repo_dir]   exit 0 iff every baseline-stable test passes."""
import json, os, subprocess, sys, tempfile, xml.etree.ElementTree as ET
repo = sys.argv[1] if len(sys.argv) > 1 else "/repo"
base = json.load(open("/root/.vp/BASELINE.json"))
stable = set(base["stable_pass"])
fd, xml = tempfile.mkstemp(suffix=".xml"); os.close(fd)
env = dict(os.environ)
env.pop("GBIGSMILES_VERIF", None)
env["PYTHONPATH"] = os.path.join(repo, "src")
cmd = ["/venv/bin/python", "-m", "pytest", "-q", "-p", "no:cacheprovider", "--timeout=900", "-n", os.environ.get("SUITE_N", "12"),
       "--continue-on-collection-errors", f"--junitxml={xml}"]
p = subprocess.run(cmd, cwd=repo, env=env, stdout=subprocess.PIPE, stderr=subprocess.STDOUT, text=True)
passed = set()
for tc in ET.parse(xml).getroot().iter("testcase"):
    name = f"{tc.get('classname')}::{tc.get('name')}"
    if not any(ch.tag in ("failure", "error", "skipped") for ch in tc):
        passed.add(name)
os.unlink(xml)
missing = sorted(stable - passed)
print(f"passed={len(passed)} baseline_stable={len(stable)} missing={len(missing)}")
for m in missing: print("  NOT PASSING:", m[:200])
if missing: print(p.stdout[-3000:])
sys.exit(1 if missing else 0)
