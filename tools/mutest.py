#!/usr/bin/env python3
"""Mutation self-test: apply a patch to a scratch worktree of /repo (outside /repo and /verif), run the given checks
against it (GBMC_REPO=<worktree>, evidence redirected), report exit codes, remove the worktree.
usage: mutest.py <patch.diff> <ID> [<ID> ...] [--tier quick|thorough] [--suite]"""
import os, shutil, subprocess, sys, tempfile
args = sys.argv[1:]
tier = "quick"
suite = False
if "--tier" in args:
    i = args.index("--tier"); tier = args[i + 1]; del args[i:i + 2]
if "--suite" in args:
    args.remove("--suite"); suite = True
patch, ids = os.path.abspath(args[0]), args[1:]
wt = tempfile.mkdtemp(prefix="gbmc_mut_", dir="/tmp")
os.rmdir(wt)
out = tempfile.mkdtemp(prefix="gbmc_out_", dir="/tmp")
rc_all = {}
try:
    subprocess.run(["git", "-C", "/repo", "worktree", "add", "--detach", "-q", wt, "HEAD"], check=True)
    shutil.copy("/repo/src/gbigsmiles/_version.py", os.path.join(wt, "src/gbigsmiles/_version.py"))
    r = subprocess.run(["git", "-C", wt, "apply", patch])
    if r.returncode != 0:
        print("PATCH DOES NOT APPLY"); sys.exit(3)
    if suite:
        r = subprocess.run(["python3", "/verif/tools/suite.py", wt])
        print("suite exit", r.returncode)
        rc_all["suite"] = r.returncode
    env = dict(os.environ, GBMC_REPO=wt, GBMC_OUT=out)
    for pid in ids:
        r = subprocess.run(["/verif/check", pid, tier], env=env, stdout=subprocess.PIPE, stderr=subprocess.STDOUT, text=True)
        lines = r.stdout.strip().splitlines()
        show = [l for l in lines if l.startswith("VIOLATION") or l.startswith("   what") or l.startswith("[") or "HARNESS" in l][:8]
        print(f"--- {pid} exit={r.returncode}")
        for l in show: print("   ", l[:400])
        rc_all[pid] = r.returncode
finally:
    subprocess.run(["git", "-C", "/repo", "worktree", "remove", "--force", wt])
    shutil.rmtree(out, ignore_errors=True)
print("RESULT", rc_all)
