#!/usr/bin/env python3
"""Regression over all kept seeded changes: every /verif/seeded/<name>/patch.diff is applied to a scratch worktree and the
checks recorded in meta.json (verification.detected_by, else the property's own check) must report a violation (exit 1).
usage: regress_seeded.py [name-prefix ...]   prints one line per change; exit 1 if any is no longer detected."""
import glob, json, os, subprocess, sys
want = sys.argv[1:]
bad = []
for d in sorted(glob.glob("/verif/seeded/C*")):
    name = os.path.basename(d)
    if want and not any(name.startswith(w) for w in want):
        continue
    meta = json.load(open(os.path.join(d, "meta.json")))
    checks = meta.get("verification", {}).get("detected_by") or [meta["property"]]
    if meta.get("not_detected"):
        print(f"{name}: recorded as NOT detected ({meta['not_detected']})"); continue
    r = subprocess.run(["python3", "/verif/tools/mutest.py", os.path.join(d, "patch.diff")] + checks[:1], stdout=subprocess.PIPE, stderr=subprocess.STDOUT, text=True)
    line = [l for l in r.stdout.splitlines() if l.startswith("RESULT")]
    ok = bool(line) and "': 1" in line[0]
    print(f"{name}: {line[0] if line else r.stdout[-200:]} {'OK' if ok else 'NOT DETECTED'}", flush=True)
    if not ok: bad.append(name)
print("not detected:", bad)
sys.exit(1 if bad else 0)
