#!/usr/bin/env python3
"""Regression over all kept seeded changes: every /verif/seeded/<name>/patch.diff is applied to a scratch worktree and
the property's own check plus the checks recorded in meta.json (verification.detected_by) are run against it; at least
one of them must report a violation (exit 1).  The outcome is written back into meta.json ("regression").
usage: regress_seeded.py [--jobs N] [name-prefix ...]   prints one line per change; exit 1 if any is no longer detected."""
import concurrent.futures as cf
import glob
import json
import os
import subprocess
import sys

args = sys.argv[1:]
jobs = 1
if "--jobs" in args:
    i = args.index("--jobs")
    jobs = int(args[i + 1])
    del args[i : i + 2]
first_only = "--first-only" in args
if first_only:
    args.remove("--first-only")
want = args


def one(d):
    name = os.path.basename(d)
    mp = os.path.join(d, "meta.json")
    meta = json.load(open(mp))
    if meta.get("not_detected"):
        return name, None, f"recorded as NOT detected ({meta['not_detected'][:80]})"
    prev = (meta.get("regression", {}).get("detected_by") or meta.get("verification", {}).get("detected_by") or [])
    checks = [meta["property"]] + [c for c in prev if c != meta["property"]]
    if first_only:
        # one check per change: the property's own check if it detected the change last time, else the first that did
        checks = [meta["property"]] if (meta["property"] in prev or not prev) else [prev[0]]
    r = subprocess.run(["python3", "/verif/tools/mutest.py", os.path.join(d, "patch.diff")] + checks, stdout=subprocess.PIPE, stderr=subprocess.STDOUT, text=True)
    line = [l for l in r.stdout.splitlines() if l.startswith("RESULT")]
    try:
        rc = eval(line[0][len("RESULT ") :]) if line else {}
    except Exception:  # noqa
        rc = {}
    first = {}
    cur = None
    for l in r.stdout.splitlines():
        if l.startswith("--- "):
            cur = l.split()[1]
        if "what=" in l and cur and cur not in first:
            first[cur] = l.strip()[5:300]
    det = [c for c, v in rc.items() if v == 1]
    meta["regression"] = {"base_commit": subprocess.check_output(["git", "-C", "/repo", "rev-parse", "--short", "HEAD"], text=True).strip(), "exit_codes": rc, "detected_by": det, "first_violation": first}
    json.dump(meta, open(mp, "w"), indent=1)
    return name, bool(det), f"{rc}"


def _round(d):
    import re as _re

    m = _re.search(r"_r(\d)m", os.path.basename(d))
    return -(int(m.group(1)) if m else 1)


dirs = [d for d in sorted(glob.glob("/verif/seeded/C*"), key=lambda d: (_round(d), d)) if not want or any(w in os.path.basename(d) for w in want)]
bad = []
with cf.ThreadPoolExecutor(jobs) as ex:
    for name, ok, msg in ex.map(one, dirs):
        print(f"{name}: {msg} {'' if ok is None else 'OK' if ok else 'NOT DETECTED'}", flush=True)
        if ok is False:
            bad.append(name)
print("not detected:", bad)
sys.exit(1 if bad else 0)
