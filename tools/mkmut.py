#!/usr/bin/env python3
"""make a unified diff against /repo HEAD by replacing one snippet: mkmut.py <out.diff> <relative file> <old> <new>"""
import difflib, sys
out, rel, old, new = sys.argv[1:5]
src = open(f"/repo/{rel}").read()
assert src.count(old) == 1, f"snippet occurs {src.count(old)} times"
dst = src.replace(old, new)
d = difflib.unified_diff(src.splitlines(True), dst.splitlines(True), f"a/{rel}", f"b/{rel}")
open(out, "w").write("".join(d))
print("wrote", out)
