#!/bin/bash
# run every claimed check at a tier for one or more seeds; print one line per check
tier=${1:-quick}; shift
seeds=${@:-0}
cd /verif
for seed in $seeds; do
 for i in $(seq -w 1 20); do
  id=C$i
  out=$(VERIF_SEED=$seed ./check $id $tier 2>&1); rc=$?
  echo "seed=$seed $id rc=$rc $(echo "$out" | tail -1 | cut -c1-180)"
  if [ $rc -ne 0 ]; then echo "$out" | grep -A2 "^VIOLATION\|HARNESS" | head -12; fi
 done
done
