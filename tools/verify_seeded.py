#!/usr/bin/env python3
"""Confirm a sub-agent's seeded change independently and file it under /verif/seeded/<PID>_<name>/.
usage: verify_seeded.py <PID> <name> [<checks...>]   reads /tmp/agents/<PID>/out/<name>.diff, <name>_demo.py, <name>_meta.json
Steps (scratch worktree of /repo HEAD outside /repo and /verif, removed afterwards):
  1. patch applies; 2. demo exits 0 on the pristine worktree; 3. demo exits != 0 with the change;
  4. the repository's test suite still passes with the change; 5. the given checks (default: PID) report a violation."""
import json, os, shutil, subprocess, sys, tempfile
pid, name = sys.argv[1], sys.argv[2]
import re
prop = re.sub(r"^r\d+_", "", pid)
tag = pid.split("_")[0] if re.match(r"^r\d+_", pid) else ""
checks = sys.argv[3:] or [prop]
src = f"/tmp/agents/{pid}/out"
patch, demo, meta = f"{src}/{name}.diff", f"{src}/{name}_demo.py", f"{src}/{name}_meta.json"
wt = tempfile.mkdtemp(prefix="gbmc_vs_", dir="/tmp"); os.rmdir(wt)
out = tempfile.mkdtemp(prefix="gbmc_vo_", dir="/tmp")
res = {"property": prop, "name": tag + name, "base_commit": subprocess.check_output(["git", "-C", "/repo", "rev-parse", "--short", "HEAD"], text=True).strip()}
def rundemo():
    env = dict(os.environ, PYTHONPATH=f"{wt}/src", PYTHONHASHSEED="0")
    # demos hard-code the agent's worktree path in places; run a copy with the path rewritten
    txt = open(demo).read().replace(f"/tmp/agents/{pid}/wt", wt)
    p = os.path.join(out, "demo.py"); open(p, "w").write(txt)
    r = subprocess.run(["timeout", "600", "/venv/bin/python", p], env=env, cwd=out, stdout=subprocess.PIPE, stderr=subprocess.STDOUT, text=True)
    return r.returncode, r.stdout[-400:]
try:
    subprocess.run(["git", "-C", "/repo", "worktree", "add", "--detach", "-q", wt, "HEAD"], check=True)
    shutil.copy("/repo/src/gbigsmiles/_version.py", f"{wt}/src/gbigsmiles/_version.py")
    rc, o = rundemo(); res["demo_pristine_exit"] = rc; res["demo_pristine_tail"] = o[-200:]
    r = subprocess.run(["git", "-C", wt, "apply", patch]); res["patch_applies"] = r.returncode == 0
    if res["patch_applies"]:
        rc, o = rundemo(); res["demo_changed_exit"] = rc; res["demo_changed_tail"] = o[-300:]
        r = subprocess.run(["python3", "/verif/tools/suite.py", wt], stdout=subprocess.PIPE, stderr=subprocess.STDOUT, text=True)
        res["suite_exit"] = r.returncode; res["suite_line"] = r.stdout.strip().splitlines()[0] if r.stdout.strip() else ""
        env = dict(os.environ, GBMC_REPO=wt, GBMC_OUT=out)
        res["checks"] = {}
        for c in checks:
            r = subprocess.run(["/verif/check", c, "quick"], env=env, stdout=subprocess.PIPE, stderr=subprocess.STDOUT, text=True)
            v = [l for l in r.stdout.splitlines() if l.strip().startswith("what=")]
            res["checks"][c] = {"exit": r.returncode, "first_violation": v[0].strip()[:300] if v else None}
finally:
    subprocess.run(["git", "-C", "/repo", "worktree", "remove", "--force", wt])
    shutil.rmtree(out, ignore_errors=True)
ok = res.get("patch_applies") and res.get("demo_pristine_exit") == 0 and res.get("demo_changed_exit", 0) != 0 and res.get("suite_exit") == 0
res["confirmed"] = bool(ok)
res["detected_by"] = [c for c, v in res.get("checks", {}).items() if v["exit"] == 1]
if ok:
    d = f"/verif/seeded/{prop}_{tag}{name}"; os.makedirs(d, exist_ok=True)
    shutil.copy(patch, f"{d}/patch.diff"); shutil.copy(demo, f"{d}/demo.py")
    am = {}
    try: am = json.load(open(meta))
    except Exception: pass
    json.dump({"property": prop, "agent_summary": am.get("summary"), "needs_to_manifest": am.get("needs_to_manifest"), "verification": res,
               "what_i_ran": "tools/verify_seeded.py: demo on pristine scratch worktree (exit 0), demo with patch (exit != 0), tools/suite.py with patch (all baseline tests pass), then ./check <ID> quick with GBMC_REPO=<scratch worktree>"}, open(f"{d}/meta.json", "w"), indent=1)
print(json.dumps(res, indent=1))
